//! Fatal-signal bookkeeping. A failure that ends the process (allocation failure, stack overflow, double
//! panic, a real segmentation fault) escapes `catch_unwind`, so it cannot be turned into a violation by the
//! thread that runs the case. Instead:
//!   * every worker publishes the case it is running in a lock-free slot;
//!   * a signal handler (async-signal-safe: atomics and write(2) only) prints one `LV-ABORT` line naming the
//!     case(s) in flight, then hands over to the previous disposition;
//!   * `lv` runs every native workload in a child of itself and the parent turns a child that died from a
//!     signal into a verdict (see `supervise` in main.rs): the case is replayed alone in a fresh child, and only
//!     a case that kills the process again is reported as a violation; anything else is inconclusive.

use std::cell::Cell;
use std::sync::atomic::{AtomicU8, AtomicU64, AtomicUsize, Ordering};

pub const NSLOT: usize = 64;
const IDLE: u64 = u64::MAX;
static SLOT_IDX: [AtomicU64; NSLOT] = [const { AtomicU64::new(IDLE) }; NSLOT];
static SLOT_TID: [AtomicU64; NSLOT] = [const { AtomicU64::new(0) }; NSLOT];
/// CPU seconds one case may burn on its worker thread before it is declared stuck (0 = watcher off)
static CPU_LIMIT_S: AtomicU64 = AtomicU64::new(0);
/// longest case seen so far, in CPU centiseconds (2 s granularity)
static LONGEST_CS: AtomicU64 = AtomicU64::new(0);
pub const EXIT_STUCK: i32 = 97;
static SUB_NAME: [AtomicU8; 96] = [const { AtomicU8::new(0) }; 96];
static SUB_LEN: AtomicUsize = AtomicUsize::new(0);

thread_local! {
    static MY_SLOT: Cell<usize> = const { Cell::new(usize::MAX) };
}

pub fn set_sub(name: &str) {
    let b = name.as_bytes();
    let n = b.len().min(SUB_NAME.len());
    SUB_LEN.store(0, Ordering::SeqCst);
    for i in 0..n {
        SUB_NAME[i].store(b[i], Ordering::Relaxed);
    }
    SUB_LEN.store(n, Ordering::SeqCst);
}

pub fn claim_slot(slot: usize) {
    MY_SLOT.with(|s| s.set(slot % NSLOT));
    #[cfg(not(miri))]
    SLOT_TID[slot % NSLOT].store(unsafe { libc::syscall(libc::SYS_gettid) } as u64, Ordering::Relaxed);
}

pub fn current_sub() -> String {
    let n = SUB_LEN.load(Ordering::SeqCst);
    (0..n).map(|i| SUB_NAME[i].load(Ordering::Relaxed) as char).collect()
}

pub fn longest_case_cpu_s() -> f64 {
    LONGEST_CS.load(Ordering::Relaxed) as f64 / 100.0
}

/// CPU time (user + system, centiseconds) of one thread of this process, from /proc (None if it is gone).
#[cfg(not(miri))]
fn thread_cpu_cs(tid: u64) -> Option<u64> {
    let t = std::fs::read_to_string(format!("/proc/self/task/{}/stat", tid)).ok()?;
    let rest = &t[t.rfind(')')? + 1..];
    let f: Vec<&str> = rest.split_whitespace().collect();
    // after the command name: state is field 3, utime 14, stime 15 (1-based) -> indices 11, 12 here
    let ut: u64 = f.get(11)?.parse().ok()?;
    let st: u64 = f.get(12)?.parse().ok()?;
    let hz = unsafe { libc::sysconf(libc::_SC_CLK_TCK) }.max(1) as u64;
    Some((ut + st) * 100 / hz)
}

/// Start the stuck-case watcher: a case that has burnt more than `cpu_limit_s` seconds of CPU time on its own
/// worker thread (a logical measure: it does not depend on how loaded the machine is) is named on stderr and
/// the process exits with EXIT_STUCK; the supervising parent then replays that case alone. A case that is in
/// flight for `wall_limit_s` without using CPU (blocked) ends the process the same way but is marked `blocked`,
/// which the parent reports as inconclusive.
#[cfg(not(miri))]
pub fn start_watcher(cpu_limit_s: u64, wall_limit_s: u64) {
    CPU_LIMIT_S.store(cpu_limit_s, Ordering::Relaxed);
    if cpu_limit_s == 0 {
        return;
    }
    std::thread::spawn(move || {
        // (case index, cpu at first sight, wall at first sight) per slot
        let mut seen: Vec<Option<(u64, u64, std::time::Instant)>> = vec![None; NSLOT];
        loop {
            std::thread::sleep(std::time::Duration::from_millis(2000));
            for s in 0..NSLOT {
                let idx = SLOT_IDX[s].load(Ordering::Relaxed);
                if idx == IDLE {
                    seen[s] = None;
                    continue;
                }
                let tid = SLOT_TID[s].load(Ordering::Relaxed);
                let Some(cpu) = thread_cpu_cs(tid) else {
                    seen[s] = None;
                    continue;
                };
                match seen[s] {
                    Some((i0, c0, w0)) if i0 == idx => {
                        let used = cpu.saturating_sub(c0);
                        LONGEST_CS.fetch_max(used, Ordering::Relaxed);
                        let wall = w0.elapsed().as_secs();
                        let stuck = used / 100 >= cpu_limit_s;
                        let blocked = wall >= wall_limit_s;
                        if stuck || blocked {
                            // the case may have ended in the meantime: look again
                            if SLOT_IDX[s].load(Ordering::Relaxed) != idx {
                                continue;
                            }
                            eprintln!(
                                "\nLV-STUCK kind={} sub={} index={} cpu_s={} wall_s={}",
                                if stuck { "cpu" } else { "blocked" },
                                current_sub().replace(' ', "_"),
                                idx,
                                used / 100,
                                wall
                            );
                            unsafe { libc::_exit(EXIT_STUCK) };
                        }
                    }
                    _ => seen[s] = Some((idx, cpu, std::time::Instant::now())),
                }
            }
        }
    });
}
#[cfg(miri)]
pub fn start_watcher(_cpu_limit_s: u64, _wall_limit_s: u64) {}

/// One parsed `LV-STUCK` line: (kind, sub, index, cpu_s).
pub fn parse_stuck_line(l: &str) -> Option<(String, String, u64, u64)> {
    let rest = l.trim().strip_prefix("LV-STUCK ")?;
    let mut kind = String::new();
    let mut sub = String::new();
    let mut idx = 0;
    let mut cpu = 0;
    for kv in rest.split(' ') {
        let (k, v) = kv.split_once('=')?;
        match k {
            "kind" => kind = v.to_string(),
            "sub" => sub = v.to_string(),
            "index" => idx = v.parse().ok()?,
            "cpu_s" => cpu = v.parse().ok()?,
            _ => {}
        }
    }
    Some((kind, sub, idx, cpu))
}

#[inline]
pub fn enter_case(idx: u64) {
    let s = MY_SLOT.with(|s| s.get());
    if s < NSLOT {
        SLOT_IDX[s].store(idx, Ordering::Relaxed);
    }
}

#[inline]
pub fn leave_case() {
    let s = MY_SLOT.with(|s| s.get());
    if s < NSLOT {
        SLOT_IDX[s].store(IDLE, Ordering::Relaxed);
    }
}

#[cfg(not(miri))]
mod imp {
    use super::*;

    static mut OLD: [libc::sigaction; 32] = unsafe { std::mem::zeroed() };

    struct Buf {
        b: [u8; 1024],
        n: usize,
    }
    impl Buf {
        fn s(&mut self, x: &[u8]) {
            for &c in x {
                if self.n < self.b.len() {
                    self.b[self.n] = c;
                    self.n += 1;
                }
            }
        }
        fn u(&mut self, mut v: u64) {
            let mut t = [0u8; 20];
            let mut k = 0;
            loop {
                t[k] = b'0' + (v % 10) as u8;
                v /= 10;
                k += 1;
                if v == 0 {
                    break;
                }
            }
            while k > 0 {
                k -= 1;
                let c = t[k];
                self.s(&[c]);
            }
        }
    }

    extern "C" fn on_fatal(sig: libc::c_int, info: *mut libc::siginfo_t, ctx: *mut libc::c_void) {
        let mut w = Buf { b: [0; 1024], n: 0 };
        w.s(b"\nLV-ABORT signal=");
        w.u(sig as u64);
        w.s(b" sub=");
        let n = SUB_LEN.load(Ordering::SeqCst);
        for i in 0..n {
            let c = SUB_NAME[i].load(Ordering::Relaxed);
            w.s(&[if c == b' ' || c == b'\n' { b'_' } else { c }]);
        }
        // MY_SLOT is a const-initialised Cell without destructor: reading it does not allocate
        let me = MY_SLOT.with(|s| s.get());
        w.s(b" own=");
        if me < NSLOT && SLOT_IDX[me].load(Ordering::Relaxed) != IDLE {
            w.u(SLOT_IDX[me].load(Ordering::Relaxed));
        } else {
            w.s(b"none");
        }
        w.s(b" active=");
        let mut first = true;
        for s in SLOT_IDX.iter() {
            let v = s.load(Ordering::Relaxed);
            if v != IDLE {
                if !first {
                    w.s(b",");
                }
                first = false;
                w.u(v);
            }
        }
        w.s(b"\n");
        unsafe {
            libc::write(2, w.b.as_ptr() as *const libc::c_void, w.n);
            // hand over to whatever was installed before (std's stack-overflow reporter, or the default action)
            let old = OLD[(sig as usize) & 31];
            if old.sa_sigaction != libc::SIG_DFL && old.sa_sigaction != libc::SIG_IGN && sig != libc::SIGABRT {
                if old.sa_flags & libc::SA_SIGINFO != 0 {
                    let f: extern "C" fn(libc::c_int, *mut libc::siginfo_t, *mut libc::c_void) = std::mem::transmute(old.sa_sigaction);
                    // std's handler returns for faults that are not guard-page hits after resetting the
                    // disposition, and aborts for stack overflows
                    libc::sigaction(sig, &old, std::ptr::null_mut());
                    f(sig, info, ctx);
                    return;
                }
            }
            libc::signal(sig, libc::SIG_DFL);
            libc::raise(sig);
        }
    }

    pub fn install() {
        unsafe {
            for sig in [libc::SIGABRT, libc::SIGSEGV, libc::SIGBUS, libc::SIGILL, libc::SIGFPE] {
                let mut sa: libc::sigaction = std::mem::zeroed();
                sa.sa_sigaction = on_fatal as usize;
                sa.sa_flags = libc::SA_SIGINFO | libc::SA_ONSTACK | libc::SA_NODEFER;
                libc::sigemptyset(&mut sa.sa_mask);
                let mut old: libc::sigaction = std::mem::zeroed();
                if libc::sigaction(sig, &sa, &mut old) == 0 {
                    OLD[(sig as usize) & 31] = old;
                }
            }
        }
    }
}

#[cfg(not(miri))]
pub fn install() {
    imp::install()
}
#[cfg(miri)]
pub fn install() {}

/// Cap the address space of this process, so that an allocation that is absurd for the workload fails here the
/// same way whether the case runs alone or next to fifteen others (without a cap the kernel's overcommit heuristic
/// decides, which depends on what else is running). Not used under Miri or the sanitizers (shadow memory).
#[cfg(not(miri))]
pub fn limit_address_space(gib: u64) -> bool {
    unsafe {
        let lim = libc::rlimit { rlim_cur: gib << 30, rlim_max: gib << 30 };
        libc::setrlimit(libc::RLIMIT_AS, &lim) == 0
    }
}
#[cfg(miri)]
pub fn limit_address_space(_gib: u64) -> bool {
    false
}

/// One parsed `LV-ABORT` line.
#[derive(Debug, Clone)]
pub struct AbortLine {
    pub signal: u32,
    pub sub: String,
    pub own: Option<u64>,
    pub active: Vec<u64>,
}

pub fn parse_abort_line(l: &str) -> Option<AbortLine> {
    let l = l.trim();
    let rest = l.strip_prefix("LV-ABORT ")?;
    let mut signal = 0;
    let mut sub = String::new();
    let mut own = None;
    let mut active = Vec::new();
    for kv in rest.split(' ') {
        let (k, v) = kv.split_once('=')?;
        match k {
            "signal" => signal = v.parse().ok()?,
            "sub" => sub = v.to_string(),
            "own" => own = v.parse().ok(),
            "active" => active = v.split(',').filter_map(|x| x.parse().ok()).collect(),
            _ => {}
        }
    }
    Some(AbortLine { signal, sub, own, active })
}
