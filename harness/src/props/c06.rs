//! C06 – DVB-S2 parity-check matrices conform to ETSI EN 302 307-1 (21 codes, exhaustive).
//! C07 lives in c07.rs; shared helpers (pins, CLI runner, Debug head) are here.

use crate::ctx::{Local, Run, Tier, guard, panic_class};
use crate::genm::from_sparse;
use crate::json::{self, J};
use crate::oracle::{girth_bounded, has_4cycle, is_codeword, matrix_digest};
use crate::props::c02::{from_gf2, to_gf2};
use crate::rng::{Dig, Rng};
use ldpc_toolbox::codes::dvbs2::Code;
use ldpc_toolbox::encoder::Encoder;
use ldpc_toolbox::sparse::SparseMatrix;
use std::fmt::Write;

pub const PIN_FILE: &str = "/verif/pinned/pins.json";
pub const BIN: &str = "/verif/target/repo/release/ldpc-toolbox";

/// first `n` bytes of a Debug rendering without materialising the rest
pub fn debug_head<T: std::fmt::Debug>(x: &T, n: usize) -> String {
    struct Head {
        s: String,
        n: usize,
    }
    impl Write for Head {
        fn write_str(&mut self, t: &str) -> std::fmt::Result {
            if self.s.len() >= self.n {
                return Err(std::fmt::Error);
            }
            self.s.push_str(t);
            Ok(())
        }
    }
    let mut h = Head { s: String::new(), n };
    let _ = write!(h, "{:?}", x);
    h.s.chars().take(n).collect()
}

pub fn load_pins() -> Option<J> {
    let t = std::fs::read_to_string(PIN_FILE).ok()?;
    json::parse(&t).ok()
}

pub fn pin_of(pins: &Option<J>, name: &str) -> Option<String> {
    pins.as_ref()?.get(name)?.as_str().map(|s| s.to_string())
}

/// run the real CLI binary; returns (exit code, stdout, stderr)
pub fn run_cli(args: &[&str], timeout_s: u64) -> Result<(i32, String, String), String> {
    use std::process::{Command, Stdio};
    let mut child = Command::new(BIN)
        .args(args)
        .stdin(Stdio::null())
        .stdout(Stdio::piped())
        .stderr(Stdio::piped())
        .spawn()
        .map_err(|e| format!("cannot run {}: {}", BIN, e))?;
    // read output in threads to avoid pipe dead-lock; watchdog by polling
    let mut so = child.stdout.take().unwrap();
    let mut se = child.stderr.take().unwrap();
    let t1 = std::thread::spawn(move || {
        let mut s = Vec::new();
        let _ = std::io::Read::read_to_end(&mut so, &mut s);
        s
    });
    let t2 = std::thread::spawn(move || {
        let mut s = Vec::new();
        let _ = std::io::Read::read_to_end(&mut se, &mut s);
        s
    });
    let start = std::time::Instant::now();
    let status = loop {
        match child.try_wait() {
            Ok(Some(st)) => break st,
            Ok(None) => {
                if start.elapsed().as_secs() > timeout_s {
                    let _ = child.kill();
                    let _ = child.wait();
                    return Err(format!("watchdog: {:?} still running after {} s", args, timeout_s));
                }
                std::thread::sleep(std::time::Duration::from_millis(5));
            }
            Err(e) => return Err(e.to_string()),
        }
    };
    let out = String::from_utf8_lossy(&t1.join().unwrap_or_default()).to_string();
    let err = String::from_utf8_lossy(&t2.join().unwrap_or_default()).to_string();
    use std::os::unix::process::ExitStatusExt;
    let code = status.code().unwrap_or_else(|| 128 + status.signal().unwrap_or(0));
    Ok((code, out, err))
}

/// CPU time consumed so far by the calling thread (nanoseconds): a measure of work that does not depend on how
/// loaded the machine is
pub fn thread_cpu_ns() -> u64 {
    #[cfg(not(miri))]
    unsafe {
        let mut ts: libc::timespec = std::mem::zeroed();
        libc::clock_gettime(libc::CLOCK_THREAD_CPUTIME_ID, &mut ts);
        return ts.tv_sec as u64 * 1_000_000_000 + ts.tv_nsec as u64;
    }
    #[cfg(miri)]
    0
}

/// Run the real binary with its standard output going to a regular file that may grow to `limit` bytes only
/// (RLIMIT_FSIZE, SIGXFSZ ignored, so the write fails with EFBIG or is cut short). Returns (exit code, bytes in
/// the file, stderr). Fault injection at the output: whatever the tool does then, exit status 0 must mean that
/// the complete output was delivered.
pub fn run_cli_output_limited(args: &[&str], limit: u64, tag: &str) -> Result<(i32, Vec<u8>, String), String> {
    use std::os::unix::process::CommandExt;
    use std::process::{Command, Stdio};
    let path = format!("/verif/target/checktmp/fsize-{}-{}.out", std::process::id(), tag);
    let _ = std::fs::create_dir_all("/verif/target/checktmp");
    let f = std::fs::File::create(&path).map_err(|e| e.to_string())?;
    let mut cmd = Command::new(BIN);
    cmd.args(args).stdin(Stdio::null()).stdout(Stdio::from(f)).stderr(Stdio::piped());
    unsafe {
        cmd.pre_exec(move || {
            let lim = libc::rlimit { rlim_cur: limit, rlim_max: limit };
            libc::setrlimit(libc::RLIMIT_FSIZE, &lim);
            libc::signal(libc::SIGXFSZ, libc::SIG_IGN);
            Ok(())
        });
    }
    let child = cmd.spawn().map_err(|e| format!("cannot run {}: {}", BIN, e))?;
    let out = child.wait_with_output().map_err(|e| e.to_string())?;
    use std::os::unix::process::ExitStatusExt;
    let code = out.status.code().unwrap_or_else(|| 128 + out.status.signal().unwrap_or(0));
    let data = std::fs::read(&path).unwrap_or_default();
    let _ = std::fs::remove_file(&path);
    Ok((code, data, String::from_utf8_lossy(&out.stderr).to_string()))
}

/// exit status 0 with an output that is not the complete expected text = violation
pub fn check_cli_output_fault(l: &mut Local, what: &str, args: &[&str], full_len: usize, tag: &str) {
    let limit = (full_len as u64 / 3).max(1);
    l.eval();
    match run_cli_output_limited(args, limit, tag) {
        Err(e) => l.inconclusive(format!("cli {:?} with limited output: {}", args, e)),
        Ok((code, data, err)) => {
            if code == 0 && data.len() < full_len {
                l.violation(
                    format!("{}: exit status 0 although only part of the output could be written (output file limited in size)", what),
                    J::obj().set("args", format!("{:?}", args)).set("bytes_written", data.len()).set("bytes_of_complete_output", full_len).set("file_size_limit", limit).set("stderr", err.chars().take(200).collect::<String>()),
                );
            } else {
                l.count("cli_runs_with_output_fault");
                l.seen("cli_exit_status_under_output_fault", code.to_string());
            }
        }
    }
}

/// h() called from other execution contexts: inside rayon pools whose thread counts do not divide anything nicely
/// (3, 6, 12 threads), and from inside a parallel iterator of the global pool; the matrix must not depend on it
pub fn build_in_contexts<F>(l: &mut Local, name: &str, reference: &SparseMatrix, build: F)
where
    F: Fn() -> SparseMatrix + Send + Sync,
{
    use rayon::prelude::*;
    for ctx in 0..4 {
        l.eval();
        let cname = ["rayon pool of 3 threads", "rayon pool of 6 threads", "rayon pool of 12 threads", "parallel iterator of the global pool"][ctx];
        let res = guard(|| match ctx {
            0 | 1 | 2 => {
                let pool = rayon::ThreadPoolBuilder::new().num_threads([3, 6, 12][ctx]).build().expect("pool");
                pool.install(|| build())
            }
            _ => (0..2).into_par_iter().map(|_| build()).collect::<Vec<_>>().pop().unwrap(),
        });
        match res {
            Err(p) => l.violation(format!("{}: h() panicked when called inside a {}: {}", name, cname, panic_class(&p)), J::obj().set("code", name)),
            Ok(h) => {
                if &h != reference {
                    let d = crate::genm::from_sparse(&h);
                    let r = crate::genm::from_sparse(reference);
                    let ndiff = d.iter().filter(|x| r.binary_search(x).is_err()).count() + r.iter().filter(|x| d.binary_search(x).is_err()).count();
                    l.violation(
                        format!("{}: the matrix depends on the execution context h() is called from", name),
                        J::obj().set("code", name).set("context", cname).set("entries_that_differ", ndiff),
                    );
                    return;
                }
                l.count("constructions_in_other_contexts");
            }
        }
    }
}

/// The harness' own copy of Tables 5a/5b (k) and the column-degree profile of the information part
pub struct Spec {
    pub name: &'static str,
    pub code: Code,
    pub rate: &'static str,
    pub short: bool,
    pub n: usize,
    pub k: usize,
    pub profile: &'static [(usize, usize)], // (degree, number of columns), heavy columns first
}

pub fn specs() -> Vec<Spec> {
    let s = |name, code, rate, short, n, k, profile| Spec { name, code, rate, short, n, k, profile };
    vec![
        s("R1_4", Code::R1_4, "1/4", false, 64800, 16200, &[(12, 5400), (3, 10800)]),
        s("R1_3", Code::R1_3, "1/3", false, 64800, 21600, &[(12, 7200), (3, 14400)]),
        s("R2_5", Code::R2_5, "2/5", false, 64800, 25920, &[(12, 8640), (3, 17280)]),
        s("R1_2", Code::R1_2, "1/2", false, 64800, 32400, &[(8, 12960), (3, 19440)]),
        s("R3_5", Code::R3_5, "3/5", false, 64800, 38880, &[(12, 12960), (3, 25920)]),
        s("R2_3", Code::R2_3, "2/3", false, 64800, 43200, &[(13, 4320), (3, 38880)]),
        s("R3_4", Code::R3_4, "3/4", false, 64800, 48600, &[(12, 5400), (3, 43200)]),
        s("R4_5", Code::R4_5, "4/5", false, 64800, 51840, &[(11, 6480), (3, 45360)]),
        s("R5_6", Code::R5_6, "5/6", false, 64800, 54000, &[(13, 5400), (3, 48600)]),
        s("R8_9", Code::R8_9, "8/9", false, 64800, 57600, &[(4, 7200), (3, 50400)]),
        s("R9_10", Code::R9_10, "9/10", false, 64800, 58320, &[(4, 6480), (3, 51840)]),
        s("R1_4short", Code::R1_4short, "1/4", true, 16200, 3240, &[(12, 1440), (3, 1800)]),
        s("R1_3short", Code::R1_3short, "1/3", true, 16200, 5400, &[(12, 1800), (3, 3600)]),
        s("R2_5short", Code::R2_5short, "2/5", true, 16200, 6480, &[(12, 2160), (3, 4320)]),
        s("R1_2short", Code::R1_2short, "1/2", true, 16200, 7200, &[(8, 1800), (3, 5400)]),
        s("R3_5short", Code::R3_5short, "3/5", true, 16200, 9720, &[(12, 3240), (3, 6480)]),
        s("R2_3short", Code::R2_3short, "2/3", true, 16200, 10800, &[(13, 1080), (3, 9720)]),
        s("R3_4short", Code::R3_4short, "3/4", true, 16200, 11880, &[(12, 360), (3, 11520)]),
        s("R4_5short", Code::R4_5short, "4/5", true, 16200, 12600, &[(3, 12600)]),
        s("R5_6short", Code::R5_6short, "5/6", true, 16200, 13320, &[(13, 360), (3, 12960)]),
        s("R8_9short", Code::R8_9short, "8/9", true, 16200, 14400, &[(4, 1800), (3, 12600)]),
    ]
}

/// encoder acceptance + linear-time encoder + encode/syndrome; shared with C07
pub fn check_encoder(l: &mut Local, name: &str, h: &SparseMatrix, e: &[(usize, usize)], must_be_staircase: bool, nmsgs: usize, rng: &mut Rng) {
    let (r, n) = (h.num_rows(), h.num_cols());
    let k = n - r;
    l.eval();
    let t0 = std::time::Instant::now();
    let c0 = thread_cpu_ns();
    let built = guard(|| Encoder::from_h(h));
    let cpu = thread_cpu_ns().saturating_sub(c0);
    // linear-time clause, in a load-independent form: CPU time of the construction per one of H. A single pass costs
    // some tens of nanoseconds per entry; anything quadratic in the number of checks costs tens of microseconds
    // for the low-rate codes. The bound leaves a factor of about 200 (and nothing is judged below one second).
    let nnz = e.len().max(1) as f64;
    let per_entry = cpu as f64 / nnz;
    if must_be_staircase && !cfg!(miri) {
        l.max("encoder_build_cpu_ns_per_entry_of_H", per_entry);
        if cpu > 1_000_000_000 && per_entry > 10_000.0 {
            l.violation(
                format!("{}: building the encoder is not linear-time work (CPU time per entry of H)", name),
                J::obj().set("code", name).set("cpu_seconds", cpu as f64 / 1e9).set("ones_in_H", e.len()).set("cpu_ns_per_entry", per_entry).set("bound_ns_per_entry", 10_000),
            );
        }
    }
    let enc = match built {
        Err(p) => {
            l.violation(format!("{}: Encoder::from_h panicked: {}", name, panic_class(&p)), J::obj().set("code", name).set("panic", p));
            return;
        }
        Ok(Err(err)) => {
            l.violation(format!("{}: matrix is rejected by the systematic encoder", name), J::obj().set("code", name).set("error", format!("{:?}", err)));
            return;
        }
        Ok(Ok(enc)) => enc,
    };
    let head = debug_head(&enc, 60);
    l.seen("encoder_types", format!("{}: {}", name, head.split('{').nth(1).unwrap_or(&head).trim().split_whitespace().next().unwrap_or("?")));
    if must_be_staircase && !head.contains("Staircase") {
        l.violation(
            format!("{}: encoder is not the linear-time staircase encoder", name),
            J::obj().set("code", name).set("encoder_debug_head", head).set("build_seconds", t0.elapsed().as_secs_f64()),
        );
    }
    for i in 0..nmsgs {
        let msg: Vec<u8> = match i {
            0 => (0..k).map(|_| rng.coin() as u8).collect(),
            1 => vec![1; k],
            2 => (0..k).map(|j| (j == k - 1 || j == 0) as u8).collect(),
            _ => (0..k).map(|_| rng.coin() as u8).collect(),
        };
        l.eval();
        match guard(|| enc.encode(&to_gf2(&msg))) {
            Err(p) => {
                l.violation(format!("{}: encode panicked: {}", name, panic_class(&p)), J::obj().set("code", name).set("panic", p));
                return;
            }
            Ok(o) => {
                let w = from_gf2(&o);
                if w.len() != n || w[..k] != msg[..] || !is_codeword(r, e, &w) {
                    l.violation(
                        format!("{}: encoded word is not a systematic codeword of the matrix", name),
                        J::obj().set("code", name).set("message_index", i).set("length", w.len()).set("prefix_ok", w.len() == n && w[..k] == msg[..]),
                    );
                    return;
                }
            }
        }
    }
}

fn check_code(l: &mut Local, sp: &Spec, pins: &Option<J>, tier: Tier, rng: &mut Rng, write_pins: &std::sync::Mutex<Vec<(String, String)>>) {
    let name = sp.name;
    l.eval();
    let h = match guard(|| sp.code.h()) {
        Err(p) => {
            l.violation(format!("{}: h() panicked: {}", name, panic_class(&p)), J::obj().set("code", name).set("panic", p));
            return;
        }
        Ok(h) => h,
    };
    let (m, n) = (h.num_rows(), h.num_cols());
    let det = |what: String| J::obj().set("code", name).set("rows", m).set("cols", n).set("what", what);
    if n != sp.n || m != sp.n - sp.k {
        l.violation(
            format!("{}: wrong dimensions", name),
            det(format!("expected {} x {} (k = {}), got {} x {}", sp.n - sp.k, sp.n, sp.k, m, n)),
        );
        return;
    }
    let k = sp.k;
    let q = m / 360;
    if m % 360 != 0 || k % 360 != 0 {
        l.violation(format!("{}: n-k or k is not a multiple of 360", name), det("".into()));
        return;
    }
    let e = from_sparse(&h);
    // row/column views agree (set semantics of the entry list)
    let mut cols: Vec<Vec<usize>> = vec![Vec::new(); n];
    for &(r, c) in &e {
        cols[c].push(r);
    }
    for c in cols.iter_mut() {
        c.sort_unstable();
    }
    // 360-column groups: each column is the previous one shifted down by q modulo n-k
    l.eval();
    for j in 0..k {
        if j % 360 == 0 {
            continue;
        }
        let mut want: Vec<usize> = cols[j - 1].iter().map(|&x| (x + q) % m).collect();
        want.sort_unstable();
        if cols[j] != want {
            l.violation(
                format!("{}: information column is not the previous one shifted by q modulo n-k", name),
                det(format!("column {} rows {:?}, column {} rows {:?}, q = {}", j - 1, cols[j - 1], j, cols[j], q)),
            );
            return;
        }
    }
    // column-degree profile of the information part
    l.eval();
    let mut prof: Vec<(usize, usize)> = Vec::new();
    for c in 0..k {
        let w = cols[c].len();
        match prof.last_mut() {
            Some(p) if p.0 == w => p.1 += 1,
            _ => prof.push((w, 1)),
        }
    }
    if prof != sp.profile {
        l.violation(
            format!("{}: column-degree profile of the information part differs from the standard's", name),
            det(format!("got {:?} expected {:?}", prof, sp.profile)),
        );
        return;
    }
    // dual-diagonal parity part
    l.eval();
    for i in 0..m {
        let want: Vec<usize> = if i + 1 < m { vec![i, i + 1] } else { vec![i] };
        if cols[k + i] != want {
            l.violation(
                format!("{}: parity part is not the exact dual diagonal", name),
                det(format!("parity column {} has rows {:?}, expected {:?}", i, cols[k + i], want)),
            );
            return;
        }
    }
    // no 4-cycle
    l.eval();
    if has_4cycle(m, n, &e) {
        l.violation(format!("{}: the matrix has a cycle of length 4", name), det("own column-pair detector".into()));
        return;
    }
    // encoder
    let nmsgs = if tier == Tier::Thorough { 24 } else { 3 };
    check_encoder(l, name, &h, &e, true, nmsgs, rng);
    // girth: 6 for normal rate 1/2 (own bounded BFS and the library's girth()); all codes in thorough
    if name == "R1_2" || tier == Tier::Thorough {
        l.eval();
        let own = girth_bounded(m, n, &e, 8);
        let lib = guard(|| h.girth());
        match lib {
            Err(p) => l.violation(format!("{}: girth() panicked: {}", name, panic_class(&p)), det(p.clone())),
            Ok(g) => {
                if name == "R1_2" && (g != Some(6) || own != Some(6)) {
                    l.violation(format!("{}: girth is not 6 as documented", name), det(format!("library girth() = {:?}, own bounded BFS = {:?}", g, own)));
                }
                if own.is_some() && g != own {
                    l.violation(format!("{}: girth() disagrees with the harness' bounded BFS", name), det(format!("library {:?}, own {:?}", g, own)));
                }
                l.seen("girths", format!("{}: {:?}", name, g));
            }
        }
    }
    // pinned reference
    l.eval();
    let dig = matrix_digest(m, n, &e);
    write_pins.lock().unwrap().push((format!("dvbs2:{}", name), dig.clone()));
    match pin_of(pins, &format!("dvbs2:{}", name)) {
        None => l.inconclusive(format!("no pinned digest for {} in {}", name, PIN_FILE)),
        Some(p) => {
            if p != dig {
                l.violation(
                    format!("{}: matrix differs from the pinned reference matrix", name),
                    det(format!("sha256 {} expected {}", dig, p)),
                );
            }
        }
    }
    let mut d = Dig::new();
    d.s(name).s(&dig);
    l.nt(d.get());
    l.sample(|| J::obj().set("code", name).set("rows", m).set("cols", n).set("k", k).set("q", q).set("profile", format!("{:?}", prof)).set("sha256", dig.clone()).set("entries", e.len()));
}

/// CLI identifiers: `dvbs2 --rate R [--short]` prints exactly the pinned matrix of that code
fn check_cli(l: &mut Local, sp: &Spec, pins: &Option<J>) {
    let mut args = vec!["dvbs2", "--rate", sp.rate];
    if sp.short {
        args.push("--short");
    }
    l.eval();
    match run_cli(&args, 120) {
        Err(e) => l.inconclusive(format!("cli {:?}: {}", args, e)),
        Ok((code, out, err)) => {
            if code != 0 {
                l.violation(format!("{}: command-line identifier is rejected", sp.name), J::obj().set("args", format!("{:?}", args)).set("exit", code).set("stderr", err.chars().take(300).collect::<String>()));
                return;
            }
            match crate::props::c08::strict_parse(&out, true) {
                Err(why) => l.violation(format!("{}: command-line output is not a well-formed alist", sp.name), J::obj().set("args", format!("{:?}", args)).set("why", why)),
                Ok((r, c, e)) => {
                    if c != sp.n || r != sp.n - sp.k {
                        l.violation(
                            format!("{}: command-line identifier yields a matrix of the wrong dimensions", sp.name),
                            J::obj().set("args", format!("{:?}", args)).set("got", format!("{} x {}", r, c)).set("expected", format!("{} x {}", sp.n - sp.k, sp.n)),
                        );
                        return;
                    }
                    let dig = matrix_digest(r, c, &e);
                    if let Some(p) = pin_of(pins, &format!("dvbs2:{}", sp.name)) {
                        if p != dig {
                            l.violation(format!("{}: command-line identifier yields a matrix different from the pinned reference", sp.name), J::obj().set("args", format!("{:?}", args)).set("sha256", dig));
                        }
                    }
                }
            }
        }
    }
}

pub fn run(run: &mut Run, extra: &[String]) {
    run.rule = "EXHAUSTIVE over the 21 Code variants (harness' own table of n, k and degree profile from EN 302 307-1 Tables 5a/5b): dimensions, 360-column shift law with q=(n-k)/360, column-degree profile, exact dual-diagonal parity part, own 4-cycle detector, Encoder::from_h accepts it with the linear-time (Staircase) encoder and encodes systematic codewords (3 messages quick / 24 thorough), girth 6 for normal 1/2 by own bounded BFS and by girth() (all codes in thorough), SHA-256 of the canonical entry list vs /verif/pinned/pins.json, the same digest for the matrix printed by the real binary for the (rate, short) identifier, and all 441 ordered pairs (a, b) of codes constructed back to back on one fresh thread (each result must equal the matrix built on a fresh thread); h() called inside rayon pools of 3/6/12 threads and inside a parallel iterator; CPU time of Encoder::from_h per entry of H (linear-time clause, bound 10 us per entry); for a third of the identifiers the binary is also run with its output file limited to a third of the alist (exit 0 must mean complete output); every configuration is non-trivial".into();
    run.exhaustive = Some(true);
    run.assumptions = vec![
        "k table and degree profiles are the harness author's transcription of EN 302 307-1; pins are regression digests taken from the repaired tree after all structural checks passed (they cannot by themselves prove equality with the printed annexes)".into(),
        "linear-time clause is observed through the encoder's Debug output (Staircase vs DenseGenerator) and through the thread CPU time of the construction per entry of H (bound 200 times above what a single pass needs)".into(),
    ];
    // monitor honesty: the digest really is SHA-256
    {
        let mut s = crate::oracle::Sha256::new();
        s.update(b"abc");
        assert_eq!(s.finish(), "ba7816bf8f01cfea414140de5dae2223b00361a396177a9cb410ff61f20015ad");
    }
    let pins = load_pins();
    let sp = specs();
    let tier = run.tier;
    let collected = std::sync::Mutex::new(Vec::new());
    // variant list itself
    let all: Vec<Code> = enum_iterator::all::<Code>().collect();
    run.extra("code_variants_in_library", all.len());
    if all.len() != sp.len() || !all.iter().zip(&sp).all(|(a, b)| *a == b.code) {
        run.merged.violation("the library's list of DVB-S2 code identifiers is not the 21 documented ones", J::obj().set("library_count", all.len()));
    }
    run.sub("codes", sp.len() as u64, |l, idx, rng| {
        check_code(l, &sp[idx as usize], &pins, tier, rng, &collected);
    });
    // call histories: h() of one code directly after h() of another one on the SAME thread must still give
    // the matrix it gives on a fresh thread (state surviving between calls, e.g. a cache keyed too coarsely)
    let reference: Vec<Option<SparseMatrix>> = sp.iter().map(|s| { let c = s.code; std::thread::spawn(move || guard(move || c.h()).ok()).join().ok().flatten() }).collect();
    // (a construction that panics on a fresh thread is already reported by the per-code sub-check above)
    let reference: Vec<SparseMatrix> = if reference.iter().all(|r| r.is_some()) { reference.into_iter().map(|r| r.unwrap()).collect() } else { Vec::new() };
    let npairs = if reference.is_empty() { 0 } else { (sp.len() * sp.len()) as u64 };
    run.sub("call-histories-ordered-pairs", npairs, |l, idx, _rng| {
        let a = idx as usize / sp.len();
        let b = idx as usize % sp.len();
        let (ca, cb) = (sp[a].code, sp[b].code);
        l.eval();
        // a fresh thread per pair, so that nothing but the first call precedes the second
        let res = std::thread::spawn(move || guard(move || { let first = ca.h(); let second = cb.h(); (first, second) })).join();
        match res {
            Ok(Ok((first, second))) => {
                if first != reference[a] || second != reference[b] {
                    l.violation(
                        "h() depends on which code was constructed before it on the same thread",
                        J::obj().set("first_call", sp[a].name).set("second_call", sp[b].name).set("second_result", format!("{} x {}", second.num_rows(), second.num_cols())).set("expected", format!("{} x {}", reference[b].num_rows(), reference[b].num_cols())).set("first_result_ok", first == reference[a]),
                    );
                } else if a != b {
                    let mut d = Dig::new();
                    d.s("pair").u(a as u64).u(b as u64);
                    l.nt(d.get());
                }
            }
            Ok(Err(p)) => l.violation(format!("h() panicked in a call history: {}", panic_class(&p)), J::obj().set("first_call", sp[a].name).set("second_call", sp[b].name).set("panic", p)),
            Err(_) => l.inconclusive("history thread could not be joined".to_string()),
        }
    });
    if !reference.is_empty() && !cfg!(miri) {
        run.sub("construction-contexts", sp.len() as u64, |l, idx, _rng| {
            let c = sp[idx as usize].code;
            build_in_contexts(l, sp[idx as usize].name, &reference[idx as usize], move || c.h());
            let mut d = Dig::new();
            d.s("ctx").u(idx);
            l.nt(d.get());
        });
    }
    if std::path::Path::new(BIN).exists() {
        run.sub("cli-identifiers", sp.len() as u64, |l, idx, _rng| {
            check_cli(l, &sp[idx as usize], &pins);
            // the documented girth through the command line (normal 1/2; in the thorough tier also short 1/2 and normal 3/5)
            let s0 = &sp[idx as usize];
            if (s0.rate == "1/2" && !s0.short) || (tier == Tier::Thorough && ((s0.rate == "1/2" && s0.short) || (s0.rate == "3/5" && !s0.short))) {
                let mut a = vec!["dvbs2", "--rate", s0.rate, "--girth"];
                if s0.short {
                    a.push("--short");
                }
                l.eval();
                match run_cli(&a, 600) {
                    Err(e) => l.inconclusive(format!("cli {:?}: {}", a, e)),
                    Ok((code, out, err)) => {
                        if code != 0 || out.trim() != "Code girth = 6" {
                            l.violation(
                                format!("{}: the command line's --girth does not report the girth 6 of the code", s0.name),
                                J::obj().set("args", format!("{:?}", a)).set("exit", code).set("stdout", out.chars().take(100).collect::<String>()).set("stderr", err.chars().take(200).collect::<String>()),
                            );
                        } else {
                            l.count("cli_girth_reports_checked");
                        }
                    }
                }
            }
            // fault at the output for a third of the identifiers
            if idx % 3 == 0 && !reference.is_empty() {
                let s = &sp[idx as usize];
                let mut args = vec!["dvbs2", "--rate", s.rate];
                if s.short {
                    args.push("--short");
                }
                let full = reference[idx as usize].alist().len() + 1;
                check_cli_output_fault(l, s.name, &args, full, &format!("c06-{}", idx));
            }
        });
    } else {
        run.merged.inconclusive(format!("binary {} not built: command-line identifiers not checked", BIN));
    }
    if extra.iter().any(|a| a == "--write-pins") {
        write_pins(collected.into_inner().unwrap());
    }
}

pub fn write_pins(new: Vec<(String, String)>) {
    let mut cur = load_pins().unwrap_or(J::obj());
    for (k, v) in new {
        cur.put(&k, v);
    }
    if let J::O(ref mut o) = cur {
        o.sort_by(|a, b| a.0.cmp(&b.0));
    }
    let _ = std::fs::create_dir_all("/verif/pinned");
    std::fs::write(PIN_FILE, cur.to_string_pretty()).expect("write pins");
    println!("pins written to {}", PIN_FILE);
}
