//! Independent oracles (trusted base of the monitors). None of these call the
//! library functions they are used to judge.

use std::collections::VecDeque;

pub type Entries = Vec<(usize, usize)>;

// ---------------------------------------------------------------- GF(2)

#[derive(Clone, Debug)]
pub struct BitMat {
    pub rows: usize,
    pub cols: usize,
    w: usize,
    d: Vec<u64>,
}

impl BitMat {
    pub fn zeros(rows: usize, cols: usize) -> BitMat {
        let w = cols.div_ceil(64).max(1);
        BitMat {
            rows,
            cols,
            w,
            d: vec![0; rows * w],
        }
    }
    pub fn from_entries(rows: usize, cols: usize, e: &[(usize, usize)]) -> BitMat {
        let mut m = BitMat::zeros(rows, cols);
        for &(r, c) in e {
            m.flip(r, c);
        }
        m
    }
    /// sub-matrix made of the given columns (in that order)
    pub fn from_entries_cols(rows: usize, e: &[(usize, usize)], col_lo: usize, col_hi: usize) -> BitMat {
        let mut m = BitMat::zeros(rows, col_hi - col_lo);
        for &(r, c) in e {
            if c >= col_lo && c < col_hi {
                m.flip(r, c - col_lo);
            }
        }
        m
    }
    pub fn get(&self, r: usize, c: usize) -> bool {
        (self.d[r * self.w + c / 64] >> (c % 64)) & 1 == 1
    }
    pub fn flip(&mut self, r: usize, c: usize) {
        self.d[r * self.w + c / 64] ^= 1u64 << (c % 64);
    }
    pub fn set(&mut self, r: usize, c: usize, v: bool) {
        if self.get(r, c) != v {
            self.flip(r, c);
        }
    }
    fn xor_row(&mut self, dst: usize, src: usize) {
        let (a, b) = (dst * self.w, src * self.w);
        for k in 0..self.w {
            let v = self.d[b + k];
            self.d[a + k] ^= v;
        }
    }
    fn swap_rows(&mut self, a: usize, b: usize) {
        if a == b {
            return;
        }
        for k in 0..self.w {
            self.d.swap(a * self.w + k, b * self.w + k);
        }
    }
    /// Reduced row echelon form in place; returns pivot columns (restricted to
    /// the first `ncols_pivot` columns).
    pub fn rref(&mut self, ncols_pivot: usize) -> Vec<usize> {
        let mut piv = Vec::new();
        let mut r = 0;
        for c in 0..ncols_pivot {
            if r >= self.rows {
                break;
            }
            let mut p = None;
            for i in r..self.rows {
                if self.get(i, c) {
                    p = Some(i);
                    break;
                }
            }
            let Some(p) = p else { continue };
            self.swap_rows(r, p);
            for i in 0..self.rows {
                if i != r && self.get(i, c) {
                    self.xor_row(i, r);
                }
            }
            piv.push(c);
            r += 1;
        }
        piv
    }
    pub fn rank(&self) -> usize {
        let mut m = self.clone();
        m.rank_destructive()
    }
    /// rank by forward elimination only (rows below the pivot), in place
    pub fn rank_destructive(&mut self) -> usize {
        let mut r = 0;
        for c in 0..self.cols {
            if r >= self.rows {
                break;
            }
            let mut p = None;
            for i in r..self.rows {
                if self.get(i, c) {
                    p = Some(i);
                    break;
                }
            }
            let Some(p) = p else { continue };
            self.swap_rows(r, p);
            let w0 = c / 64; // words left of the pivot are already zero in the rows below
            for i in (r + 1)..self.rows {
                if self.get(i, c) {
                    let (a, b) = (i * self.w, r * self.w);
                    for k in w0..self.w {
                        let v = self.d[b + k];
                        self.d[a + k] ^= v;
                    }
                }
            }
            r += 1;
        }
        r
    }
}

pub fn rank(rows: usize, cols: usize, e: &[(usize, usize)]) -> usize {
    BitMat::from_entries(rows, cols, e).rank()
}

/// Are the last `rows` columns an invertible matrix?
pub fn tail_invertible(rows: usize, cols: usize, e: &[(usize, usize)]) -> bool {
    if cols < rows {
        return false;
    }
    BitMat::from_entries_cols(rows, e, cols - rows, cols).rank() == rows
}

/// Syndrome H*w (one bit per row)
pub fn syndrome(rows: usize, e: &[(usize, usize)], word: &[u8]) -> Vec<u8> {
    let mut s = vec![0u8; rows];
    for &(r, c) in e {
        s[r] ^= word[c] & 1;
    }
    s
}
pub fn is_codeword(rows: usize, e: &[(usize, usize)], word: &[u8]) -> bool {
    syndrome(rows, e, word).iter().all(|&b| b == 0)
}

/// Solve H x = 0 with x known at the positions where `known[i]` is Some.
/// Returns one solution if there is any (free unknowns set to 0) and the
/// number of free unknowns.
pub fn complete_codeword(
    rows: usize,
    cols: usize,
    e: &[(usize, usize)],
    known: &[Option<u8>],
) -> Option<(Vec<u8>, usize)> {
    let unk: Vec<usize> = (0..cols).filter(|&c| known[c].is_none()).collect();
    let mut pos = vec![usize::MAX; cols];
    for (i, &c) in unk.iter().enumerate() {
        pos[c] = i;
    }
    let nu = unk.len();
    let mut m = BitMat::zeros(rows, nu + 1);
    for &(r, c) in e {
        match known[c] {
            Some(b) => {
                if b & 1 == 1 {
                    m.flip(r, nu);
                }
            }
            None => m.flip(r, pos[c]),
        }
    }
    let piv = m.rref(nu);
    // inconsistent row: zero in unknown part, one in rhs
    for r in piv.len()..rows {
        if m.get(r, nu) {
            return None;
        }
    }
    let mut x: Vec<u8> = known.iter().map(|k| k.unwrap_or(0)).collect();
    for (r, &pc) in piv.iter().enumerate() {
        x[unk[pc]] = m.get(r, nu) as u8;
    }
    Some((x, nu - piv.len()))
}

/// All codewords of a small code (cols <= 20)
pub fn all_codewords(rows: usize, cols: usize, e: &[(usize, usize)]) -> Vec<Vec<u8>> {
    let mut out = Vec::new();
    let mut masks = vec![0u32; rows];
    for &(r, c) in e {
        masks[r] ^= 1 << c;
    }
    for w in 0u32..(1u32 << cols) {
        if masks.iter().all(|&m| (m & w).count_ones() % 2 == 0) {
            out.push((0..cols).map(|c| ((w >> c) & 1) as u8).collect());
        }
    }
    out
}

// ---------------------------------------------------------------- graphs

/// Tanner graph on an explicit adjacency list: nodes 0..R are rows, R..R+C columns
pub struct Graph {
    pub r: usize,
    pub c: usize,
    pub adj: Vec<Vec<usize>>,
}

impl Graph {
    pub fn new(rows: usize, cols: usize, e: &[(usize, usize)]) -> Graph {
        let mut adj = vec![Vec::new(); rows + cols];
        for &(r, c) in e {
            if !adj[r].contains(&(rows + c)) {
                adj[r].push(rows + c);
                adj[rows + c].push(r);
            }
        }
        Graph { r: rows, c: cols, adj }
    }
    pub fn row(&self, r: usize) -> usize {
        r
    }
    pub fn col(&self, c: usize) -> usize {
        self.r + c
    }
    pub fn dist(&self, root: usize) -> Vec<Option<usize>> {
        self.dist_without_edge(root, usize::MAX, usize::MAX)
    }
    /// BFS distances ignoring the edge {a,b}
    pub fn dist_without_edge(&self, root: usize, a: usize, b: usize) -> Vec<Option<usize>> {
        let mut d = vec![None; self.adj.len()];
        let mut q = VecDeque::new();
        d[root] = Some(0);
        q.push_back(root);
        while let Some(u) = q.pop_front() {
            for &v in &self.adj[u] {
                if (u == a && v == b) || (u == b && v == a) {
                    continue;
                }
                if d[v].is_none() {
                    d[v] = Some(d[u].unwrap() + 1);
                    q.push_back(v);
                }
            }
        }
        d
    }
    /// Length of the shortest cycle through node v (definition: for each
    /// neighbour u, 1 + distance from u to v without the edge {u,v}).
    pub fn local_girth(&self, v: usize) -> Option<usize> {
        let mut best = None;
        for &u in &self.adj[v] {
            let d = self.dist_without_edge(u, u, v);
            if let Some(x) = d[v] {
                let c = x + 1;
                if best.is_none_or(|b| c < b) {
                    best = Some(c);
                }
            }
        }
        best
    }
    pub fn girth(&self) -> Option<usize> {
        (0..self.adj.len()).filter_map(|v| self.local_girth(v)).min()
    }
    pub fn is_forest(&self) -> bool {
        self.girth().is_none()
    }
    /// diameter of the largest component (max finite distance)
    pub fn diameter(&self) -> usize {
        let mut m = 0;
        for v in 0..self.adj.len() {
            for d in self.dist(v).into_iter().flatten() {
                m = m.max(d);
            }
        }
        m
    }
}

/// 4-cycle detector by column-pair counting per row pair (for large sparse
/// matrices): returns true if two columns share two rows.
pub fn has_4cycle(rows: usize, cols: usize, e: &[(usize, usize)]) -> bool {
    // For each row, list of columns; for each column, mark the rows of the
    // columns adjacent through each of its rows and look for a repeat.
    let mut by_row: Vec<Vec<usize>> = vec![Vec::new(); rows];
    let mut by_col: Vec<Vec<usize>> = vec![Vec::new(); cols];
    for &(r, c) in e {
        by_row[r].push(c);
        by_col[c].push(r);
    }
    let mut mark = vec![usize::MAX; cols];
    for c in 0..cols {
        for &r in &by_col[c] {
            for &c2 in &by_row[r] {
                if c2 == c {
                    continue;
                }
                if mark[c2] == c {
                    return true;
                }
                mark[c2] = c;
            }
        }
    }
    false
}

/// Girth of a large sparse graph, searching cycles of length up to `max`
/// (bounded BFS from every column, branch-labelled).
pub fn girth_bounded(rows: usize, cols: usize, e: &[(usize, usize)], max: usize) -> Option<usize> {
    let g = Graph::new(rows, cols, e);
    let n = g.adj.len();
    let mut best: Option<usize> = None;
    let mut dist = vec![u32::MAX; n];
    let mut branch = vec![u32::MAX; n];
    let mut touched: Vec<usize> = Vec::new();
    for root in rows..rows + cols {
        let lim = best.map(|b| b - 1).unwrap_or(max); // only shorter cycles matter
        let depth = lim / 2;
        for &t in &touched {
            dist[t] = u32::MAX;
            branch[t] = u32::MAX;
        }
        touched.clear();
        let mut q = VecDeque::new();
        dist[root] = 0;
        touched.push(root);
        q.push_back(root);
        while let Some(u) = q.pop_front() {
            let du = dist[u];
            if du as usize >= depth {
                continue;
            }
            for &v in &g.adj[u] {
                if dist[v] == u32::MAX {
                    dist[v] = du + 1;
                    branch[v] = if u == root { v as u32 } else { branch[u] };
                    touched.push(v);
                    q.push_back(v);
                } else if v != root && u != root && branch[v] != branch[u] {
                    let c = (du + dist[v] + 1) as usize;
                    if c <= lim && best.is_none_or(|b| c < b) {
                        best = Some(c);
                    }
                }
            }
        }
    }
    best
}

// ---------------------------------------------------------------- check-node algebra

/// exact box-plus of two LLRs (stable form)
pub fn boxplus(a: f64, b: f64) -> f64 {
    let s = if (a < 0.0) ^ (b < 0.0) { -1.0 } else { 1.0 };
    let (x, y) = (a.abs(), b.abs());
    let m = x.min(y);
    let v = m + (-(x + y)).exp().ln_1p() - (-(x - y).abs()).exp().ln_1p();
    s * v.max(0.0)
}

/// exact box-plus of a list (empty list = +inf)
pub fn boxplus_all(v: &[f64]) -> f64 {
    let mut it = v.iter();
    let Some(&first) = it.next() else {
        return f64::INFINITY;
    };
    let mut acc = first;
    for &x in it {
        acc = boxplus(acc, x);
    }
    acc
}

/// extrinsic box-plus excluding index j
pub fn boxplus_excl(v: &[f64], j: usize) -> f64 {
    let w: Vec<f64> = v
        .iter()
        .enumerate()
        .filter_map(|(i, &x)| if i != j { Some(x) } else { None })
        .collect();
    boxplus_all(&w)
}

/// Independent high-accuracy evaluation via the tanh rule in log domain:
/// |out| = 2 atanh(exp(sum ln tanh(|x|/2))), used to cross-check `boxplus`.
pub fn boxplus_excl_logtanh(v: &[f64], j: usize) -> f64 {
    let mut s = 1.0;
    let mut acc = 0.0;
    for (i, &x) in v.iter().enumerate() {
        if i == j {
            continue;
        }
        if x < 0.0 {
            s = -s;
        }
        // ln tanh(a/2) = ln(1-e^-a) - ln(1+e^-a)
        let a = x.abs();
        let e = (-a).exp();
        acc += (-e).ln_1p() - e.ln_1p();
    }
    // 2 atanh(t) with t = e^acc : = ln((1+t)/(1-t))
    let t = acc.exp();
    s * ((1.0 + t) / (1.0 - t)).ln()
}

/// round-half-away-from-zero then saturate to +-127 (the documented quantiser);
/// NaN -> 0
pub fn quant8(llr: f64) -> i8 {
    let x = 8.0 * llr;
    if x.is_nan() {
        return 0;
    }
    if x >= 127.0 {
        127
    } else if x <= -127.0 {
        -127
    } else {
        // round half away from zero, computed exactly: |x| < 127 so trunc and
        // the fractional part are exact in f64
        let t = x.trunc();
        let frac = x - t;
        let r = if frac.abs() >= 0.5 { t + x.signum() } else { t };
        r as i8
    }
}

pub fn sat127(x: i64) -> i64 {
    x.clamp(-127, 127)
}

/// 8-bit correction table value: round(8 ln(1+exp(-t/8))) (0 when it rounds to 0)
pub fn corr8(t: i64) -> i64 {
    let v = (8.0 * (-(t as f64) / 8.0).exp().ln_1p()).round() as i64;
    v.max(0)
}

/// Brute-force posterior LLRs of a small code given channel LLRs
pub fn posterior_llrs(codewords: &[Vec<u8>], llr: &[f64]) -> Vec<f64> {
    let n = llr.len();
    // log-likelihood of codeword c (up to a constant): sum over bits with c_i = 1 of -llr_i
    let ll: Vec<f64> = codewords
        .iter()
        .map(|c| c.iter().zip(llr).map(|(&b, &l)| if b == 1 { -l } else { 0.0 }).sum::<f64>())
        .collect();
    let lse = |idx: &mut dyn Iterator<Item = f64>| -> f64 {
        let v: Vec<f64> = idx.collect();
        if v.is_empty() {
            return f64::NEG_INFINITY;
        }
        let m = v.iter().cloned().fold(f64::NEG_INFINITY, f64::max);
        m + v.iter().map(|x| (x - m).exp()).sum::<f64>().ln()
    };
    (0..n)
        .map(|i| {
            let a = lse(&mut codewords.iter().zip(&ll).filter(|(c, _)| c[i] == 0).map(|(_, &l)| l));
            let b = lse(&mut codewords.iter().zip(&ll).filter(|(c, _)| c[i] == 1).map(|(_, &l)| l));
            a - b
        })
        .collect()
}

// ---------------------------------------------------------------- SHA-256 (for pins)

pub struct Sha256 {
    h: [u32; 8],
    buf: Vec<u8>,
    len: u64,
}

const K256: [u32; 64] = [
    0x428a2f98, 0x71374491, 0xb5c0fbcf, 0xe9b5dba5, 0x3956c25b, 0x59f111f1, 0x923f82a4, 0xab1c5ed5, 0xd807aa98,
    0x12835b01, 0x243185be, 0x550c7dc3, 0x72be5d74, 0x80deb1fe, 0x9bdc06a7, 0xc19bf174, 0xe49b69c1, 0xefbe4786,
    0x0fc19dc6, 0x240ca1cc, 0x2de92c6f, 0x4a7484aa, 0x5cb0a9dc, 0x76f988da, 0x983e5152, 0xa831c66d, 0xb00327c8,
    0xbf597fc7, 0xc6e00bf3, 0xd5a79147, 0x06ca6351, 0x14292967, 0x27b70a85, 0x2e1b2138, 0x4d2c6dfc, 0x53380d13,
    0x650a7354, 0x766a0abb, 0x81c2c92e, 0x92722c85, 0xa2bfe8a1, 0xa81a664b, 0xc24b8b70, 0xc76c51a3, 0xd192e819,
    0xd6990624, 0xf40e3585, 0x106aa070, 0x19a4c116, 0x1e376c08, 0x2748774c, 0x34b0bcb5, 0x391c0cb3, 0x4ed8aa4a,
    0x5b9cca4f, 0x682e6ff3, 0x748f82ee, 0x78a5636f, 0x84c87814, 0x8cc70208, 0x90befffa, 0xa4506ceb, 0xbef9a3f7,
    0xc67178f2,
];

impl Sha256 {
    pub fn new() -> Sha256 {
        Sha256 {
            h: [
                0x6a09e667, 0xbb67ae85, 0x3c6ef372, 0xa54ff53a, 0x510e527f, 0x9b05688c, 0x1f83d9ab, 0x5be0cd19,
            ],
            buf: Vec::new(),
            len: 0,
        }
    }
    fn block(&mut self, b: &[u8]) {
        let mut w = [0u32; 64];
        for i in 0..16 {
            w[i] = u32::from_be_bytes([b[4 * i], b[4 * i + 1], b[4 * i + 2], b[4 * i + 3]]);
        }
        for i in 16..64 {
            let s0 = w[i - 15].rotate_right(7) ^ w[i - 15].rotate_right(18) ^ (w[i - 15] >> 3);
            let s1 = w[i - 2].rotate_right(17) ^ w[i - 2].rotate_right(19) ^ (w[i - 2] >> 10);
            w[i] = w[i - 16].wrapping_add(s0).wrapping_add(w[i - 7]).wrapping_add(s1);
        }
        let mut v = self.h;
        for i in 0..64 {
            let s1 = v[4].rotate_right(6) ^ v[4].rotate_right(11) ^ v[4].rotate_right(25);
            let ch = (v[4] & v[5]) ^ (!v[4] & v[6]);
            let t1 = v[7].wrapping_add(s1).wrapping_add(ch).wrapping_add(K256[i]).wrapping_add(w[i]);
            let s0 = v[0].rotate_right(2) ^ v[0].rotate_right(13) ^ v[0].rotate_right(22);
            let maj = (v[0] & v[1]) ^ (v[0] & v[2]) ^ (v[1] & v[2]);
            let t2 = s0.wrapping_add(maj);
            v[7] = v[6];
            v[6] = v[5];
            v[5] = v[4];
            v[4] = v[3].wrapping_add(t1);
            v[3] = v[2];
            v[2] = v[1];
            v[1] = v[0];
            v[0] = t1.wrapping_add(t2);
        }
        for i in 0..8 {
            self.h[i] = self.h[i].wrapping_add(v[i]);
        }
    }
    pub fn update(&mut self, data: &[u8]) {
        self.len += data.len() as u64;
        self.buf.extend_from_slice(data);
        while self.buf.len() >= 64 {
            let b: Vec<u8> = self.buf.drain(..64).collect();
            self.block(&b);
        }
    }
    pub fn finish(mut self) -> String {
        let bitlen = self.len * 8;
        let mut pad = vec![0x80u8];
        while (self.buf.len() + pad.len()) % 64 != 56 {
            pad.push(0);
        }
        pad.extend_from_slice(&bitlen.to_be_bytes());
        let mut all = std::mem::take(&mut self.buf);
        all.extend_from_slice(&pad);
        for c in all.chunks(64) {
            self.block(c);
        }
        self.h.iter().map(|x| format!("{:08x}", x)).collect()
    }
}

/// Canonical digest of a matrix: dimensions + sorted entry list
pub fn matrix_digest(rows: usize, cols: usize, e: &[(usize, usize)]) -> String {
    let mut v = e.to_vec();
    v.sort_unstable();
    v.dedup();
    let mut s = Sha256::new();
    s.update(format!("{} {}\n", rows, cols).as_bytes());
    let mut chunk = String::new();
    for (r, c) in v {
        chunk.push_str(&format!("{} {}\n", r, c));
        if chunk.len() > 1 << 16 {
            s.update(chunk.as_bytes());
            chunk.clear();
        }
    }
    s.update(chunk.as_bytes());
    s.finish()
}
