//! Input generators: parity-check matrices (entry list is the source of truth
//! for the oracles) and hostile LLR vectors.

use crate::oracle::Entries;
use crate::rng::Rng;
use ldpc_toolbox::sparse::SparseMatrix;

#[derive(Clone, Debug)]
pub struct Mat {
    pub rows: usize,
    pub cols: usize,
    pub e: Entries,
    pub family: &'static str,
}

impl Mat {
    pub fn new(rows: usize, cols: usize, mut e: Entries, family: &'static str) -> Mat {
        e.sort_unstable();
        e.dedup();
        Mat { rows, cols, e, family }
    }
    pub fn to_sparse(&self) -> SparseMatrix {
        let mut h = SparseMatrix::new(self.rows, self.cols);
        for &(r, c) in &self.e {
            h.insert(r, c);
        }
        h
    }
    /// same matrix with entries inserted in a shuffled order (internal list
    /// order of SparseMatrix then differs from sorted order)
    pub fn to_sparse_shuffled(&self, rng: &mut Rng) -> SparseMatrix {
        let mut e = self.e.clone();
        rng.shuffle(&mut e);
        let mut h = SparseMatrix::new(self.rows, self.cols);
        for &(r, c) in &e {
            h.insert(r, c);
        }
        h
    }
    /// same matrix written through the bulk operations (`set_col`, `set_row`,
    /// `insert_col`, `insert_row`), some index lists naming an entry twice:
    /// the documentation defines these as inserting each element in turn, so
    /// a repeated index changes nothing
    pub fn to_sparse_bulk(&self, rng: &mut Rng) -> SparseMatrix {
        let mut h = SparseMatrix::new(self.rows, self.cols);
        let by_col = rng.coin();
        let set = rng.coin();
        let mut lists = vec![Vec::new(); if by_col { self.cols } else { self.rows }];
        for &(r, c) in &self.e {
            if by_col {
                lists[c].push(r);
            } else {
                lists[r].push(c);
            }
        }
        for (k, l) in lists.iter_mut().enumerate() {
            if !l.is_empty() && rng.chance(0.5) {
                let extra = 1 + rng.below(2);
                for _ in 0..extra {
                    let x = l[rng.below(l.len())];
                    l.push(x);
                }
            }
            rng.shuffle(l);
            match (by_col, set) {
                (true, true) => h.set_col(k, l.iter()),
                (true, false) => h.insert_col(k, l.iter()),
                (false, true) => h.set_row(k, l.iter()),
                (false, false) => h.insert_row(k, l.iter()),
            }
        }
        h
    }
    pub fn row_weights(&self) -> Vec<usize> {
        let mut w = vec![0; self.rows];
        for &(r, _) in &self.e {
            w[r] += 1;
        }
        w
    }
    pub fn col_weights(&self) -> Vec<usize> {
        let mut w = vec![0; self.cols];
        for &(_, c) in &self.e {
            w[c] += 1;
        }
        w
    }
    pub fn row_lists(&self) -> Vec<Vec<usize>> {
        let mut v = vec![Vec::new(); self.rows];
        for &(r, c) in &self.e {
            v[r].push(c);
        }
        v
    }
    pub fn col_lists(&self) -> Vec<Vec<usize>> {
        let mut v = vec![Vec::new(); self.cols];
        for &(r, c) in &self.e {
            v[c].push(r);
        }
        v
    }
    pub fn contains(&self, r: usize, c: usize) -> bool {
        self.e.binary_search(&(r, c)).is_ok()
    }
    pub fn json(&self) -> crate::json::J {
        crate::json::J::obj()
            .set("rows", self.rows)
            .set("cols", self.cols)
            .set("family", self.family)
            .set("entries", crate::json::jentries(&self.e))
    }
}

/// the same code with one or two extra bits that take part in no check (zero-weight columns, e.g. filler bits),
/// inserted at random positions
pub fn add_isolated_columns(m: &Mat, rng: &mut Rng) -> Mat {
    let extra = rng.range(1, 2);
    let mut e = m.e.clone();
    let mut cols = m.cols;
    for _ in 0..extra {
        let at = rng.below(cols + 1);
        for x in e.iter_mut() {
            if x.1 >= at {
                x.1 += 1;
            }
        }
        cols += 1;
    }
    Mat::new(m.rows, cols, e, m.family)
}

pub fn from_sparse(h: &SparseMatrix) -> Entries {
    let mut e: Entries = h.iter_all().collect();
    e.sort_unstable();
    e
}

fn ensure_row_weight2(rows: usize, cols: usize, e: &mut Entries, rng: &mut Rng) {
    for r in 0..rows {
        loop {
            let w = e.iter().filter(|&&(rr, _)| rr == r).count();
            if w >= 2 || w >= cols {
                break;
            }
            let c = rng.below(cols);
            if !e.contains(&(r, c)) {
                e.push((r, c));
            }
        }
    }
}

/// The 4x6 textbook matrix (Johnson, example 2.5)
pub fn textbook() -> Mat {
    let rows = [vec![0, 1, 3], vec![1, 2, 4], vec![0, 4, 5], vec![2, 3, 5]];
    let mut e = Vec::new();
    for (r, cs) in rows.iter().enumerate() {
        for &c in cs {
            e.push((r, c));
        }
    }
    Mat::new(4, 6, e, "textbook4x6")
}

/// Random decoder matrix: every row has weight >= 2 (the property's domain).
pub fn decoder_matrix(rng: &mut Rng, max_rows: usize, max_cols: usize) -> Mat {
    let fam = rng.below(10);
    let rows = rng.range(1, max_rows);
    let cols = rng.range(2.max(rows.min(max_cols)), max_cols.max(2));
    let mut e: Entries = Vec::new();
    let family: &'static str;
    match fam {
        0 => {
            family = "random-colweight";
            let wc = rng.range(1, 4.min(rows));
            for c in 0..cols {
                for r in rng.choose(rows, wc) {
                    e.push((r, c));
                }
            }
        }
        1 => {
            family = "random-density";
            let p = *rng.pick(&[0.1, 0.2, 0.35, 0.5, 0.8]);
            for r in 0..rows {
                for c in 0..cols {
                    if rng.chance(p) {
                        e.push((r, c));
                    }
                }
            }
        }
        2 => {
            family = "repeat-accumulate";
            // information part random, staircase tail
            if cols > rows {
                let k = cols - rows;
                for c in 0..k {
                    for r in { let kk = rng.range(1, 3.min(rows)); rng.choose(rows, kk) } {
                        e.push((r, c));
                    }
                }
                for r in 0..rows {
                    e.push((r, k + r));
                    if r > 0 {
                        e.push((r, k + r - 1));
                    }
                }
            } else {
                for r in 0..rows {
                    e.push((r, r % cols));
                    e.push((r, (r + 1) % cols));
                }
            }
        }
        3 => {
            family = "forest";
            return forest(rng, rows.min(8), cols);
        }
        4 => {
            family = "weight0-columns";
            let wc = rng.range(1, 3.min(rows));
            for c in 0..cols {
                if rng.chance(0.3) {
                    continue;
                }
                for r in rng.choose(rows, wc) {
                    e.push((r, c));
                }
            }
        }
        5 => {
            family = "duplicate-rows";
            let base = { let kk = rng.range(2, cols.min(5)); rng.choose(cols, kk) };
            for r in 0..rows {
                if r % 2 == 0 || rows == 1 {
                    for &c in &base {
                        e.push((r, c));
                    }
                } else {
                    for c in { let kk = rng.range(2, cols.min(4)); rng.choose(cols, kk) } {
                        e.push((r, c));
                    }
                }
            }
        }
        6 => {
            family = "full-row";
            for c in 0..cols {
                e.push((0, c));
            }
            for r in 1..rows {
                for c in { let kk = rng.range(2, cols.min(4)); rng.choose(cols, kk) } {
                    e.push((r, c));
                }
            }
        }
        7 => {
            family = "many-4cycles";
            let b = rng.range(2, cols.min(5));
            let cs = rng.choose(cols, b);
            for r in 0..rows {
                for &c in &cs {
                    if rng.chance(0.85) {
                        e.push((r, c));
                    }
                }
                if rng.coin() {
                    e.push((r, rng.below(cols)));
                }
            }
        }
        8 => {
            family = "unequal-row-weights";
            for r in 0..rows {
                let w = if r % 3 == 0 { cols.min(rng.range(6, 12)) } else { 2 };
                for c in rng.choose(cols, w.min(cols)) {
                    e.push((r, c));
                }
            }
        }
        _ => {
            return textbook();
        }
    }
    e.sort_unstable();
    e.dedup();
    ensure_row_weight2(rows, cols, &mut e, rng);
    Mat::new(rows, cols, e, family)
}

/// Random forest Tanner graph with every check of degree >= 2.
pub fn forest(rng: &mut Rng, max_rows: usize, max_cols: usize) -> Mat {
    // grow: start with isolated variable nodes; each new check connects
    // variables taken from distinct components (so no cycle can close)
    let cols = rng.range(2, max_cols.max(2));
    let rows_target = rng.range(1, max_rows.max(1));
    let mut comp: Vec<usize> = (0..cols).collect();
    let mut e: Entries = Vec::new();
    let mut rows = 0;
    for _ in 0..rows_target {
        // distinct components present
        let mut comps: Vec<usize> = comp.clone();
        comps.sort_unstable();
        comps.dedup();
        if comps.len() < 2 {
            break;
        }
        let d = rng.range(2, comps.len().min(4));
        let chosen = {
            let idx = rng.choose(comps.len(), d);
            idx.into_iter().map(|i| comps[i]).collect::<Vec<_>>()
        };
        let mut vars = Vec::new();
        for &cc in &chosen {
            let members: Vec<usize> = (0..cols).filter(|&v| comp[v] == cc).collect();
            vars.push(*rng.pick(&members));
        }
        for &v in &vars {
            e.push((rows, v));
        }
        let target = chosen[0];
        for c in comp.iter_mut() {
            if chosen.contains(c) {
                *c = target;
            }
        }
        rows += 1;
    }
    if rows == 0 {
        e.push((0, 0));
        e.push((0, 1));
        rows = 1;
    }
    Mat::new(rows, cols, e, "forest")
}

// ---------------------------------------------------------------- LLR vectors

pub const LLR_CLASSES: &[&str] = &[
    "uniform-moderate",
    "tiny",
    "huge",
    "mixed-extreme",
    "rounding-boundaries",
    "zeros-block",
    "all-equal",
    "codeword-few-flips",
    "subnormal",
    "small-integers",
    "huge-then-tiny",
    "near-zero-signed",
];

/// One hostile scalar
pub fn hostile_scalar(rng: &mut Rng) -> f64 {
    match rng.below(14) {
        0 => 0.0,
        1 => -0.0,
        2 => f64::from_bits(rng.range(1, 1000) as u64) * rng.sign(), // subnormal
        3 => rng.logu(-30.0, -20.0) * rng.sign(),
        4 => rng.logu(20.0, 30.0) * rng.sign(),
        5 => 1e30 * rng.sign(),
        6 => {
            // 8-bit rounding boundary (k+1/2)/8 +- ulp
            let k = rng.irange(-128, 128) as f64;
            let x = (k + 0.5) / 8.0;
            match rng.below(3) {
                0 => x,
                1 => f64::from_bits(x.to_bits().wrapping_add(1)),
                _ => f64::from_bits(x.to_bits().wrapping_sub(1)),
            }
        }
        7 => 127.0 / 8.0 * rng.sign(),
        8 => rng.irange(-16, 16) as f64 / 8.0,
        9 => rng.uniform(-3.0, 3.0),
        10 => rng.uniform(-30.0, 30.0),
        11 => rng.irange(-4, 4) as f64,
        12 => f64::MIN_POSITIVE * rng.sign(),
        _ => rng.normal() * 4.0 + 2.0,
    }
}

/// Hostile LLR vector (|x| <= 1e30). `codeword` (if any) gives a sign pattern
/// that classes built around a codeword use.
pub fn llr_vector(rng: &mut Rng, n: usize, class: usize, codeword: Option<&[u8]>) -> Vec<f64> {
    let cw: Vec<u8> = match codeword {
        Some(c) => c.to_vec(),
        None => vec![0; n],
    };
    let sgn = |b: u8| if b == 1 { -1.0 } else { 1.0 };
    match class % LLR_CLASSES.len() {
        0 => (0..n).map(|_| rng.uniform(-6.0, 6.0)).collect(),
        1 => (0..n).map(|_| rng.logu(-30.0, -20.0) * rng.sign()).collect(),
        2 => (0..n).map(|_| rng.logu(20.0, 30.0) * rng.sign()).collect(),
        3 => (0..n).map(|_| hostile_scalar(rng)).collect(),
        4 => (0..n)
            .map(|_| {
                let k = rng.irange(-20, 20) as f64;
                let x = (k + 0.5) / 8.0;
                match rng.below(3) {
                    0 => x,
                    1 => f64::from_bits(x.to_bits().wrapping_add(1)),
                    _ => f64::from_bits(x.to_bits().wrapping_sub(1)),
                }
            })
            .collect(),
        5 => {
            // a block of exact zeros (punctured positions), rest noisy codeword
            let a = rng.below(n);
            let b = rng.range(a, n - 1);
            (0..n)
                .map(|i| {
                    if i >= a && i <= b {
                        0.0
                    } else {
                        sgn(cw[i]) * rng.uniform(0.2, 5.0) * if rng.chance(0.1) { -1.0 } else { 1.0 }
                    }
                })
                .collect()
        }
        6 => {
            let m = *rng.pick(&[0.125, 1.0, 1.3863, 15.875, 1e-25, 1e25]);
            (0..n).map(|_| m * rng.sign()).collect()
        }
        7 => {
            let flips = rng.range(0, 3.min(n));
            let fl = rng.choose(n, flips);
            (0..n)
                .map(|i| {
                    let s = if fl.contains(&i) { -1.0 } else { 1.0 };
                    s * sgn(cw[i]) * rng.uniform(0.3, 4.0)
                })
                .collect()
        }
        8 => (0..n)
            .map(|_| f64::from_bits(rng.range(0, 4096) as u64) * rng.sign())
            .collect(),
        9 => (0..n).map(|_| rng.irange(-3, 3) as f64).collect(),
        10 => (0..n)
            .map(|i| if i % 2 == 0 { 1e30 * rng.sign() } else { 1e-30 * rng.sign() })
            .collect(),
        _ => (0..n)
            .map(|_| *rng.pick(&[0.0, -0.0, 0.0624, -0.0624, 0.0625, -0.0625, 0.0626, 1e-300, -1e-300]))
            .collect(),
    }
}

pub fn sign_pattern(llrs: &[f64]) -> Vec<u8> {
    llrs.iter().map(|&x| (x <= 0.0) as u8).collect()
}

/// A random codeword of the code (by solving H x = 0 with random free bits)
pub fn random_codeword(rng: &mut Rng, m: &Mat) -> Vec<u8> {
    // choose random values for a random subset, complete the rest
    let mut known: Vec<Option<u8>> = vec![None; m.cols];
    // iterative: fix random bits one at a time while still solvable
    let order = {
        let mut o: Vec<usize> = (0..m.cols).collect();
        rng.shuffle(&mut o);
        o
    };
    for &c in &order {
        let b = rng.coin() as u8;
        known[c] = Some(b);
        if crate::oracle::complete_codeword(m.rows, m.cols, &m.e, &known).is_none() {
            known[c] = Some(1 - b);
        }
    }
    known.into_iter().map(|k| k.unwrap()).collect()
}
