use lv::ctx::{ReplayReq, Run, Tier, install_panic_hook};
use lv::json;

fn usage() -> ! {
    eprintln!("usage: lv <ID> [--tier quick|thorough] [--seed N] [--replay FILE] [--leg NAME] [--legs name=log,...] [--only SUB]");
    std::process::exit(2)
}

fn main() {
    let args: Vec<String> = std::env::args().skip(1).collect();
    if args.is_empty() {
        usage();
    }
    let prop = args[0].clone();
    let mut tier = match std::env::var("VERIF_TIER").as_deref() {
        Ok("thorough") => Tier::Thorough,
        _ => Tier::Quick,
    };
    let mut seed: u64 = std::env::var("VERIF_SEED").ok().and_then(|s| s.parse().ok()).unwrap_or(1);
    let mut replay: Option<String> = None;
    let mut leg: Option<String> = None;
    let mut legs: Vec<(String, String)> = Vec::new();
    let mut extra: Vec<String> = Vec::new();
    let mut child = false;
    let mut legs_only = false;
    let mut i = 1;
    while i < args.len() {
        match args[i].as_str() {
            "--tier" => {
                i += 1;
                tier = match args.get(i).map(|s| s.as_str()) {
                    Some("quick") => Tier::Quick,
                    Some("thorough") => Tier::Thorough,
                    _ => usage(),
                };
            }
            "--seed" => {
                i += 1;
                seed = args.get(i).and_then(|s| s.parse().ok()).unwrap_or_else(|| usage());
            }
            "--replay" => {
                i += 1;
                replay = Some(args.get(i).cloned().unwrap_or_else(|| usage()));
            }
            "--leg" => {
                i += 1;
                leg = Some(args.get(i).cloned().unwrap_or_else(|| usage()));
            }
            "--legs" => {
                i += 1;
                for kv in args.get(i).cloned().unwrap_or_default().split(',') {
                    if let Some((k, v)) = kv.split_once('=') {
                        legs.push((k.to_string(), v.to_string()));
                    }
                }
            }
            "--child" => child = true,
            "--legs-only" => legs_only = true,
            other => extra.push(other.to_string()),
        }
        i += 1;
    }
    // every native workload runs in a child of this process, so that a failure that kills the process
    // (allocation failure, stack overflow, double panic) still ends in a verdict
    if !child && leg.is_none() && !cfg!(miri) && std::env::var("LV_NO_SUPERVISOR").is_err() {
        std::process::exit(supervise(&args, &prop, tier, seed, replay.as_deref()));
    }
    lv::abort::install();
    lv::abort::start_watcher(cpu_limit(tier), match tier { Tier::Quick => 800, Tier::Thorough => 5000 });
    install_panic_hook();
    let mut run = Run::new(&prop, tier, seed);
    run.leg = leg;
    if let Some(path) = &replay {
        let text = std::fs::read_to_string(path).unwrap_or_else(|e| {
            eprintln!("ERROR cannot read replay file {}: {}", path, e);
            std::process::exit(2)
        });
        let j = json::parse(&text).unwrap_or_else(|e| {
            eprintln!("ERROR cannot parse replay file {}: {}", path, e);
            std::process::exit(2)
        });
        let sub = j.get("sub").and_then(|s| s.as_str()).unwrap_or("").to_string();
        let idx = j.get("index").and_then(|s| s.as_u64()).unwrap_or(0);
        if let Some(s) = j.get("seed").and_then(|s| s.as_u64()) {
            run.seed = s;
        }
        if let Some(t) = j.get("tier").and_then(|s| s.as_str()) {
            run.tier = if t == "thorough" { Tier::Thorough } else { Tier::Quick };
        }
        let first = j.get("prefix_from").and_then(|s| s.as_u64());
        run.replay = Some(ReplayReq { sub, idx, first });
    }
    if legs_only {
        // (used by the supervisor after the native workload process died without a reproducible culprit: what the
        // sanitizer / interpreter / unchecked legs found must not be lost with it)
        run.merged.inconclusive("the native workload process died from a signal that no single case reproduces; only the legs are reported");
    } else if !lv::props::dispatch(&mut run, &extra) {
        eprintln!("ERROR unknown property {}", prop);
        std::process::exit(2);
    }
    for (name, log) in &legs {
        run.integrate_leg(name, log);
    }
    let code = run.finish();
    std::process::exit(code);
}

struct ChildEnd {
    code: Option<i32>,
    abort: Option<lv::abort::AbortLine>,
    stuck: Option<(String, String, u64, u64)>,
    tail: Vec<String>,
}

fn fatal_message(tail: &[String]) -> Option<String> {
    tail.iter()
        .rev()
        .find(|l| {
            l.contains("memory allocation of")
                || l.contains("overflowed its stack")
                || l.contains("panicked while processing panic")
                || l.contains("cannot unwind")
                || l.contains("capacity overflow")
        })
        .map(|l| lv::ctx::panic_class(l))
}

/// Run `lv <args> --child`, pass its output through, and turn a death by signal or a stuck case into a verdict.
fn supervise(args: &[String], prop: &str, tier: Tier, seed: u64, replay: Option<&str>) -> i32 {
    use std::io::{BufRead, BufReader};
    use std::process::{Command, Stdio};
    let exe = std::env::current_exe().expect("current_exe");
    let run_child = |extra: &[String]| -> ChildEnd {
        let mut end = ChildEnd { code: Some(2), abort: None, stuck: None, tail: Vec::new() };
        let mut c = match Command::new(&exe).args(extra).arg("--child").stdin(Stdio::null()).stderr(Stdio::piped()).spawn() {
            Ok(c) => c,
            Err(e) => {
                eprintln!("ERROR cannot start the workload process: {}", e);
                return end;
            }
        };
        let err = c.stderr.take().unwrap();
        for line in BufReader::new(err).split(b'\n') {
            let Ok(line) = line else { break };
            let line = String::from_utf8_lossy(&line).to_string();
            eprintln!("{}", line);
            if end.abort.is_none() {
                if let Some(a) = lv::abort::parse_abort_line(&line) {
                    end.abort = Some(a);
                    continue;
                }
            }
            if end.stuck.is_none() {
                if let Some(st) = lv::abort::parse_stuck_line(&line) {
                    end.stuck = Some(st);
                    continue;
                }
            }
            if !line.trim().is_empty() && !line.starts_with("LV-ABORT") {
                end.tail.push(line);
                if end.tail.len() > 12 {
                    end.tail.remove(0);
                }
            }
        }
        end.code = c.wait().ok().and_then(|s| s.code());
        end
    };
    let probe_from = |sub: &str, idx: u64, first: Option<u64>| -> ChildEnd {
        let dir = format!("{}/target/abort-probe", lv::ctx::VERIF_DIR);
        let _ = std::fs::create_dir_all(&dir);
        let path = format!("{}/{}-{}-{}.json", dir, prop, std::process::id(), idx);
        let mut rep = json::J::obj().set("property", prop).set("tier", tier.name()).set("seed", seed).set("sub", sub).set("index", idx);
        if let Some(f) = first {
            rep.put("prefix_from", f);
        }
        let _ = std::fs::write(&path, rep.to_string_pretty());
        let probe_args: Vec<String> = vec![prop.to_string(), "--tier".into(), tier.name().into(), "--seed".into(), seed.to_string(), "--replay".into(), path.clone()];
        match first {
            None => eprintln!("[supervisor] replaying {}[{}] alone in a fresh process", sub, idx),
            Some(f) => eprintln!("[supervisor] replaying {}[{}..={}] one after the other on one thread in a fresh process", sub, f, idx),
        }
        let e = run_child(&probe_args);
        let _ = std::fs::remove_file(&path);
        e
    };
    let probe = |sub: &str, idx: u64| -> ChildEnd { probe_from(sub, idx, None) };
    let report = |sub: &str, idx: u64, sig: String, what: &str, tail: &[String]| -> i32 {
        let mut run = Run::new(prop, tier, seed);
        run.merged.cur_sub = sub.to_string();
        run.merged.cur_idx = idx;
        run.merged.violation(sig, json::J::obj().set("what", what).set("stderr_tail", json::J::A(tail.iter().map(|s| json::J::S(s.clone())).collect())));
        run.assumptions
            .push("the workload process did not finish; this evidence was written by the supervising process and only describes the fatal case".to_string());
        run.finish()
    };
    let died = |c: Option<i32>| !matches!(c, Some(c) if c != 134 && c != 139);
    let first = run_child(args);

    // ---- a case that does not return
    if first.code == Some(lv::abort::EXIT_STUCK) {
        let Some((kind, sub, idx, cpu)) = first.stuck.clone() else {
            println!("INCONCLUSIVE property={} the workload process reported a stuck case without naming it", prop);
            return 2;
        };
        if kind != "cpu" {
            println!("INCONCLUSIVE property={} case {}[{}] was in flight beyond the wall-clock limit without using CPU time (blocked); no verdict from a clock", prop, sub, idx);
            return 2;
        }
        let sig = format!("a call does not return: the case burns more than {} s of CPU time on its own thread [{}]", cpu_limit(tier), sub);
        if let Some(r) = replay {
            println!("VIOLATION property={} replay={}", prop, r);
            println!("  signature: {}", sig);
            println!("REPLAY property={} violations=1 evaluations=0", prop);
            return 1;
        }
        let again = probe(&sub, idx);
        return match (&again.code, &again.stuck) {
            (Some(c), Some((k, _, _, _))) if *c == lv::abort::EXIT_STUCK && k == "cpu" => report(
                &sub,
                idx,
                sig,
                "the case was stopped after burning the CPU budget (thread CPU time, independent of machine load) twice: inside the workload and replayed alone in a fresh process; every other case of this workload returns orders of magnitude sooner",
                &again.tail,
            ),
            _ => {
                println!("INCONCLUSIVE property={} case {}[{}] burnt {} s of CPU time inside the workload but returns when replayed alone", prop, sub, idx, cpu);
                2
            }
        };
    }

    if !died(first.code) {
        return first.code.unwrap_or(2);
    }
    // ---- the workload process died from a signal
    let what = fatal_message(&first.tail).unwrap_or_else(|| "no message".to_string());
    let Some(a) = first.abort else {
        println!("INCONCLUSIVE property={} the workload process died from a signal (exit {:?}) without naming the case in flight: {}", prop, first.code, what);
        return 2;
    };
    if let Some(r) = replay {
        // this was the replay of a single case: it killed the process again
        println!("VIOLATION property={} replay={}", prop, r);
        println!("  signature: the process is killed (signal {}: {}) [{}]", a.signal, what, a.sub);
        println!("REPLAY property={} violations=1 evaluations=0", prop);
        return 1;
    }
    // replay the candidates one at a time in fresh processes; only a case that kills the process on its own counts
    let mut cands: Vec<u64> = a.own.into_iter().collect();
    for x in &a.active {
        if !cands.contains(x) {
            cands.push(*x);
        }
    }
    for idx in cands.iter().take(64) {
        let p = probe(&a.sub, *idx);
        if died(p.code) {
            let what2 = fatal_message(&p.tail).unwrap_or_else(|| what.clone());
            let sig_no = p.abort.as_ref().map(|x| x.signal).unwrap_or(a.signal);
            return report(
                &a.sub,
                *idx,
                format!("the process is killed (signal {}: {}) [{}]", sig_no, what2, a.sub),
                "the case ends the whole process instead of returning or panicking; reproduced by replaying the case alone in a fresh process",
                &p.tail,
            );
        }
    }
    // not alone: perhaps it needs the calls made before it (state kept between calls on a thread). Replay the cases
    // leading up to it, in order, on one thread of a fresh process.
    for idx in a.own.into_iter().chain(a.active.iter().cloned()).take(3) {
        let first = idx.saturating_sub(200_000);
        let p = probe_from(&a.sub, idx, Some(first));
        if p.code == Some(1) {
            // the history leading up to the fatal case already contains violations that the dying process could
            // not report; the replaying process has printed them and written the evidence
            eprintln!("[supervisor] the replayed history reports violations of its own (the fatal case itself did not recur)");
            return 1;
        }
        if died(p.code) {
            let what2 = fatal_message(&p.tail).unwrap_or_else(|| what.clone());
            let sig_no = p.abort.as_ref().map(|x| x.signal).unwrap_or(a.signal);
            let last = p.abort.as_ref().and_then(|x| x.own.or(x.active.first().cloned())).unwrap_or(idx);
            let mut run = Run::new(prop, tier, seed);
            run.merged.cur_sub = a.sub.clone();
            run.merged.cur_idx = last;
            run.replay_prefix_from = Some(first);
            run.merged.violation(
                format!("the process is killed (signal {}: {}) after a history of calls on one thread [{}]", sig_no, what2, a.sub),
                json::J::obj()
                    .set("what", "the case ends the whole process, but only after the cases before it ran on the same thread (state kept between calls); reproduced by replaying the cases prefix_from..=index in order on one thread of a fresh process")
                    .set("prefix_from", first)
                    .set("stderr_tail", json::J::A(p.tail.iter().map(|s| json::J::S(s.clone())).collect())),
            );
            run.assumptions.push("the workload process did not finish; this evidence was written by the supervising process and only describes the fatal case".to_string());
            return run.finish();
        }
    }
    if replay.is_none() && args.iter().any(|a| a == "--legs") {
        let mut a2: Vec<String> = args.to_vec();
        a2.push("--legs-only".into());
        let e = run_child(&a2);
        if e.code == Some(1) {
            return 1;
        }
    }
    println!(
        "INCONCLUSIVE property={} the workload process died from a signal ({}) in {} but none of the {} cases in flight reproduces it alone or after the cases before it",
        prop,
        what,
        a.sub,
        cands.len()
    );
    2
}

/// CPU seconds one case may burn on its worker thread (the largest legitimate case measured is far below; see
/// `longest_case_cpu_s` in the evidence)
fn cpu_limit(tier: Tier) -> u64 {
    if let Some(v) = std::env::var("LV_CASE_CPU_S").ok().and_then(|s| s.parse().ok()) {
        return v;
    }
    match tier {
        Tier::Quick => 240,
        Tier::Thorough => 900,
    }
}
