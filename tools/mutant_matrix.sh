#!/bin/bash
# tools/mutant_matrix.sh [tier]  -- validation only. Applies every kept seeded change in turn,
# runs the check of its property, reverts, and writes /verif/seeded/MATRIX.md.
set -u
TIER=${1:-quick}
FILTER=${2:-}
OUT=/verif/seeded/MATRIX${FILTER:+.$FILTER}.md
echo "| seeded change | property | caught by ($TIER) | first signature |" > $OUT.tmp
echo "|---|---|---|---|" >> $OUT.tmp
for d in /verif/seeded/C*-*m* /verif/mutants/*.diff; do
  case "$d" in *"$FILTER"*) ;; *) continue ;; esac
  if [ -d "$d" ]; then patch=$d/patch.diff; name=$(basename $d); id=${name%%-*}; else patch=$d; name=$(basename $d .diff); id=${name%%-*}; fi
  res=$(/verif/tools/trymutant.sh "$patch" "$id" "$TIER" 2>&1)
  rc=$(echo "$res" | grep -o "exit=[0-9]*" | tail -1)
  sig=$(echo "$res" | grep -m1 "signature:" | sed 's/.*signature: //' | cut -c1-140 | tr '|' '/')
  nsig=$(echo "$res" | grep -c "signature:")
  if [ "$rc" = "exit=1" ]; then verdict="yes ($nsig signatures)"; else verdict="NO ($rc)"; fi
  echo "| $name | $id | $verdict | $sig |" >> $OUT.tmp
  echo "$name $rc $sig"
done
mv $OUT.tmp $OUT
