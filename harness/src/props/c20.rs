//! C20 – the command-line tool emits exactly what the library computes.
//! The real binary built from the working tree is run in child processes.

use crate::ctx::{Local, Run, Tier, guard};
use crate::genm::{Mat, from_sparse};
use crate::json::J;
use crate::props::c02::{from_gf2, to_gf2};
use crate::props::c06::{BIN, run_cli, specs};
use crate::rng::{Dig, Rng};
use ldpc_toolbox::codes::ccsds::{AR4JACode, AR4JAInfoSize, AR4JARate, C2Code};
use ldpc_toolbox::encoder::Encoder;
use ldpc_toolbox::mackay_neal::{Config as MnConfig, FillPolicy};
use ldpc_toolbox::peg::Config as PegConfig;
use ldpc_toolbox::simulation::puncturing::Puncturer;
use ldpc_toolbox::sparse::SparseMatrix;
use ldpc_toolbox::systematic::parity_to_systematic;

fn tmpdir() -> String {
    let d = format!("/verif/target/legs/c20-{}", std::process::id());
    let _ = std::fs::create_dir_all(&d);
    d
}

fn cli(l: &mut Local, args: &[&str], timeout: u64) -> Option<(i32, String, String)> {
    cli_opt(l, args, timeout, false)
}

/// `worker_panic_ok`: the documented panic of a processing stage inside a BER worker thread may
/// show on stderr; what is demanded then is an error exit of the tool instead of a hang
fn cli_opt(l: &mut Local, args: &[&str], timeout: u64, worker_panic_ok: bool) -> Option<(i32, String, String)> {
    l.eval();
    match run_cli(args, timeout) {
        Ok(r) => {
            let main_panicked = r.2.contains("thread 'main'") && r.2.contains("panicked at");
            if (r.2.contains("panicked at") && !worker_panic_ok) || main_panicked {
                l.violation(
                    format!("the command-line tool panicked ({} subcommand)", args.first().unwrap_or(&"")),
                    J::obj().set("args", format!("{:?}", args)).set("exit", r.0).set("stderr", r.2.chars().take(400).collect::<String>()),
                );
                return None;
            }
            Some(r)
        }
        Err(e) => {
            if e.starts_with("watchdog") {
                l.violation(
                    format!("the command-line tool does not terminate ({} subcommand)", args.first().unwrap_or(&"")),
                    J::obj().set("args", format!("{:?}", args)).set("watchdog", e),
                );
            } else {
                l.inconclusive(format!("cannot run the binary: {}", e));
            }
            None
        }
    }
}

fn expect_failure(l: &mut Local, what: &str, args: &[&str]) {
    if let Some((code, _out, err)) = cli(l, args, 60) {
        if code == 0 {
            l.violation(format!("exit status 0 for {}", what), J::obj().set("args", format!("{:?}", args)));
        } else if err.trim().is_empty() {
            l.violation(format!("no message on stderr for {}", what), J::obj().set("args", format!("{:?}", args)).set("exit", code));
        } else {
            l.count("invalid_invocations_rejected");
            let mut d = Dig::new();
            d.s(&format!("{:?}", args));
            l.nt(d.get());
        }
    }
}

fn expect_stdout(l: &mut Local, what: &str, args: &[&str], want: &str, timeout: u64) -> bool {
    if let Some((code, out, err)) = cli(l, args, timeout) {
        if code != 0 {
            l.violation(format!("non-zero exit status for a valid invocation ({})", what), J::obj().set("args", format!("{:?}", args)).set("exit", code).set("stderr", err.chars().take(300).collect::<String>()));
            return false;
        }
        if out != want {
            // describe the first difference
            let first = out.lines().zip(want.lines()).position(|(a, b)| a != b).unwrap_or(out.lines().count().min(want.lines().count()));
            l.violation(
                format!("stdout is not what the library computes ({})", what),
                J::obj()
                    .set("args", format!("{:?}", args))
                    .set("first_differing_line", first + 1)
                    .set("got_line", out.lines().nth(first).unwrap_or("<missing>").chars().take(120).collect::<String>())
                    .set("expected_line", want.lines().nth(first).unwrap_or("<missing>").chars().take(120).collect::<String>())
                    .set("got_bytes", out.len())
                    .set("expected_bytes", want.len()),
            );
            return false;
        }
        let mut d = Dig::new();
        d.s(&format!("{:?}", args));
        l.nt(d.get());
        l.sample(|| J::obj().set("invocation", format!("{:?}", args)).set("exit", code).set("stdout_bytes", out.len()).set("stdout_equals_library_result", true).set("stdout_head", out.chars().take(60).collect::<String>()));
        return true;
    }
    false
}

fn codegen(l: &mut Local, tier: Tier) {
    // dvbs2: exhaustive over the harness' own (rate, short) table
    for sp in specs() {
        let mut args = vec!["dvbs2", "--rate", sp.rate];
        if sp.short {
            args.push("--short");
        }
        let want = sp.code.h().alist();
        expect_stdout(l, "dvbs2", &args, &want, 120);
        if sp.name == "R1_2" || tier == Tier::Thorough {
            let mut a2 = args.clone();
            a2.push("--girth");
            let g = sp.code.h().girth();
            let want = match g {
                Some(g) => format!("Code girth = {}\n", g),
                None => "Code girth is infinite\n".to_string(),
            };
            if sp.name == "R1_2" && g != Some(6) {
                l.violation("documented girth 6 of DVB-S2 rate 1/2 does not hold", J::obj().set("girth", g));
            }
            expect_stdout(l, "dvbs2 --girth", &a2, &want, 300);
        }
    }
    // every invalid combination of the documented rate strings
    let rates = ["1/4", "1/3", "2/5", "1/2", "3/5", "2/3", "3/4", "4/5", "5/6", "8/9", "9/10"];
    for r in ["9/10"] {
        expect_failure(l, "an invalid DVB-S2 rate / frame combination", &["dvbs2", "--rate", r, "--short"]);
    }
    for r in ["7/8", "", "1", "1/2 ", "0.5", "1/5", "4/9", "11/15", "rate"] {
        expect_failure(l, "an invalid DVB-S2 rate", &["dvbs2", "--rate", r]);
        expect_failure(l, "an invalid DVB-S2 rate", &["dvbs2", "--rate", r, "--short"]);
    }
    let _ = rates;
    expect_failure(l, "a missing required argument", &["dvbs2"]);
    // ccsds
    for (rs, rate, m_div) in [("1/2", AR4JARate::R1_2, 2usize), ("2/3", AR4JARate::R2_3, 4), ("4/5", AR4JARate::R4_5, 8)] {
        for (ks, size) in [("1024", AR4JAInfoSize::K1024), ("4096", AR4JAInfoSize::K4096), ("16384", AR4JAInfoSize::K16384)] {
            let _ = m_div;
            let h = AR4JACode::new(rate, size).h();
            expect_stdout(l, "ccsds", &["ccsds", "--rate", rs, "--block-size", ks], &h.alist(), 120);
            if (rs == "1/2" && ks == "1024") || (tier == Tier::Thorough && ks != "16384") {
                let g = h.girth();
                let want = match g {
                    Some(g) => format!("Code girth = {}\n", g),
                    None => "Code girth is infinite\n".to_string(),
                };
                if rs == "1/2" && ks == "1024" && g != Some(6) {
                    l.violation("documented girth 6 of CCSDS rate 1/2 k=1024 does not hold", J::obj().set("girth", g));
                }
                expect_stdout(l, "ccsds --girth", &["ccsds", "--rate", rs, "--block-size", ks, "--girth"], &want, 300);
            }
        }
    }
    for (r, k) in [("3/4", "1024"), ("1/2", "2048"), ("1/2", "0"), ("7/8", "7156"), ("", "1024"), ("1/2", "1023"), ("2/3", "16385")] {
        expect_failure(l, "an invalid CCSDS rate or block size", &["ccsds", "--rate", r, "--block-size", k]);
    }
    expect_failure(l, "a non-numeric block size", &["ccsds", "--rate", "1/2", "--block-size", "abc"]);
    expect_stdout(l, "ccsds-c2", &["ccsds-c2"], &C2Code::new().h().alist(), 120);
    expect_failure(l, "an unknown subcommand", &["ccsds-c3"]);
}

fn constructions(l: &mut Local, rng: &mut Rng) {
    // peg
    let c = PegConfig { nrows: rng.range(1, 12), ncols: rng.range(1, 30), wc: rng.range(1, 4) };
    let seed = rng.next_u64() >> rng.below(62);
    let (r, cc, w, s) = (c.nrows.to_string(), c.ncols.to_string(), c.wc.to_string(), seed.to_string());
    if let Ok(h) = c.run(seed) {
        let want = format!("{}\n", h.alist());
        if rng.coin() {
            expect_stdout(l, "peg", &["peg", &r, &cc, &w, &s], &want, 60);
        } else if let Some((code, out, err)) = cli(l, &["peg", &r, &cc, &w, &s, "--girth"], 60) {
            let gl = match h.girth() {
                Some(g) => format!("Code girth = {}", g),
                None => "Code girth = infinity (there are no cycles)".to_string(),
            };
            if code != 0 || out != want || err.trim() != gl {
                l.violation(
                    "peg --girth output is not what the library computes",
                    J::obj().set("args", format!("peg {} {} {} {} --girth", r, cc, w, s)).set("exit", code).set("stderr", err.chars().take(200).collect::<String>()).set("expected_stderr", gl).set("stdout_matches", out == want),
                );
            } else {
                let mut d = Dig::new();
                d.s("peg-girth").u(seed).u(c.nrows as u64).u(c.ncols as u64);
                l.nt(d.get());
            }
        }
    }
    // mackay-neal
    let nrows = rng.range(2, 10);
    let ncols = rng.range(2, 24);
    let wc = rng.range(1, 3.min(nrows));
    let need = (ncols * wc).div_ceil(nrows);
    let conf = MnConfig {
        nrows,
        ncols,
        wr: need + rng.range(0, 2),
        wc,
        backtrack_cols: if rng.coin() { rng.range(1, 3) } else { 0 },
        backtrack_trials: rng.range(0, 4),
        min_girth: if rng.coin() { Some(rng.range(4, 8)) } else { None },
        // 0 (the command line's default) in a quarter of the cases: a girth requirement without retries is meaningful
        girth_trials: if rng.chance(0.25) { 0 } else { rng.range(1, 30) },
        fill_policy: if rng.coin() { FillPolicy::Uniform } else { FillPolicy::Random },
    };
    let seed = rng.next_u64() >> rng.below(62);
    let mut args: Vec<String> = vec!["mackay-neal".into(), nrows.to_string(), ncols.to_string(), conf.wr.to_string(), wc.to_string(), seed.to_string()];
    if conf.backtrack_cols > 0 {
        args.push("--backtrack-cols".into());
        args.push(conf.backtrack_cols.to_string());
    }
    if conf.backtrack_trials > 0 {
        args.push("--backtrack-trials".into());
        args.push(conf.backtrack_trials.to_string());
    }
    if let Some(g) = conf.min_girth {
        args.push("--min-girth".into());
        args.push(g.to_string());
    }
    if conf.girth_trials > 0 {
        args.push("--girth-trials".into());
        args.push(conf.girth_trials.to_string());
    }
    if conf.fill_policy == FillPolicy::Uniform {
        args.push("--uniform".into());
    }
    let search = rng.chance(0.3);
    let tries = rng.range(1, 20) as u64;
    if search {
        args.push("--search".into());
        args.push("--seed-trials".into());
        args.push(tries.to_string());
    }
    let argv: Vec<&str> = args.iter().map(|s| s.as_str()).collect();
    if !search {
        match conf.run(seed) {
            Ok(h) => {
                expect_stdout(l, "mackay-neal", &argv, &format!("{}\n", h.alist()), 60);
            }
            Err(_) => expect_failure(l, "a MacKay-Neal construction that fails", &argv),
        }
    } else if seed < u64::MAX - 100 {
        let ok: Vec<u64> = (seed..seed + tries).filter(|&s| conf.run(s).is_ok()).collect();
        if let Some((code, out, err)) = cli(l, &argv, 120) {
            let det = || J::obj().set("args", format!("{:?}", argv)).set("exit", code).set("stderr", err.chars().take(200).collect::<String>()).set("successful_seeds", ok.clone());
            if ok.is_empty() {
                if code == 0 {
                    l.violation("mackay-neal --search exits 0 although every seed in range fails", det());
                }
            } else if code != 0 {
                l.violation("mackay-neal --search fails although a seed in range succeeds", det());
            } else {
                let sline = err.lines().find_map(|x| x.strip_prefix("seed = ")).and_then(|x| x.trim().parse::<u64>().ok());
                match sline {
                    None => l.violation("mackay-neal --search does not print 'seed = s' on stderr", det()),
                    Some(s) => {
                        if !ok.contains(&s) || out != format!("{}\n", conf.run(s).unwrap().alist()) {
                            l.violation("mackay-neal --search prints a seed/matrix pair that the library does not produce", det().set("seed", s));
                        } else {
                            let mut d = Dig::new();
                            d.s(&format!("{:?}", argv));
                            l.nt(d.get());
                        }
                    }
                }
            }
        }
    }
}

fn write_file(path: &str, data: &[u8]) {
    std::fs::write(path, data).expect("write temp file");
}

fn ra_code(rng: &mut Rng, r: usize, n: usize) -> Mat {
    let k = n - r;
    let mut e = Vec::new();
    for c in 0..k {
        for j in { let kk = 2.min(r); rng.choose(r, kk) } {
            e.push((j, c));
        }
    }
    for j in 0..r {
        e.push((j, k + j));
        if j > 0 {
            e.push((j, k + j - 1));
        }
    }
    // every check must involve at least two bits (the decoders' domain): row 0 has a single staircase
    // entry, so give it an information bit if the random columns did not
    for j in 0..r {
        if k > 0 && e.iter().filter(|x| x.0 == j).count() < 2 {
            e.push((j, rng.below(k)));
        }
    }
    Mat::new(r, n, e, "ra")
}

fn systematic_cmd(l: &mut Local, rng: &mut Rng, dir: &str, idx: u64) {
    // matrices of all kinds, including ones whose tail is already invertible and rank-deficient ones
    let r = rng.range(1, 7);
    let n = r + rng.range(0, 8);
    let mut e = Vec::new();
    match rng.below(4) {
        0 => {
            for j in 0..r {
                for c in 0..n {
                    if rng.coin() {
                        e.push((j, c));
                    }
                }
            }
        }
        1 => {
            // last r columns form an identity, first columns random: conversion is not the identity permutation in general
            for j in 0..r {
                e.push((j, n - r + j));
                for c in 0..n - r {
                    if rng.coin() {
                        e.push((j, c));
                    }
                }
            }
        }
        2 => {
            // rank deficient: two equal rows
            for j in 0..r {
                for c in 0..n {
                    if rng.chance(0.4) {
                        e.push((j, c));
                    }
                }
            }
            if r >= 2 {
                let src: Vec<usize> = e.iter().filter(|x| x.0 == 0).map(|x| x.1).collect();
                e.retain(|x| x.0 != r - 1);
                for c in src {
                    e.push((r - 1, c));
                }
            }
        }
        _ => {
            let m = ra_code(rng, r, n.max(r + 1));
            e = m.e;
        }
    }
    let n = n.max(e.iter().map(|x| x.1 + 1).max().unwrap_or(0)).max(r);
    let m = Mat::new(r, n, e, "systematic-input");
    let h = m.to_sparse();
    let path = format!("{}/sys-{}.alist", dir, idx);
    write_file(&path, if rng.coin() { h.alist() } else { h.alist_no_padding() }.as_bytes());
    match guard(|| parity_to_systematic(&h)) {
        Ok(Ok(hs)) => {
            expect_stdout(l, "systematic", &["systematic", &path], &format!("{}\n", hs.alist()), 60);
        }
        Ok(Err(_)) => expect_failure(l, "a rank-deficient matrix given to systematic", &["systematic", &path]),
        Err(_) => {}
    }
    let _ = std::fs::remove_file(&path);
}

fn encode_cmd(l: &mut Local, rng: &mut Rng, dir: &str, idx: u64) {
    // every 100th case a code with more than 2^16 message bits (index widths; a 1 MB alist and 70 kB words)
    let wide = idx % 100 == 57 && !cfg!(miri);
    let (r, n) = if wide { (3usize, 65_540 + 3 * rng.below(700)) } else { *rng.pick(&[(3usize, 6usize), (4, 12), (5, 15), (15, 35), (35, 70), (7, 63), (2, 9), (6, 18), (12, 36)]) };
    let m = ra_code(rng, r, n);
    let h = m.to_sparse();
    let k = n - r;
    let apath = format!("{}/enc-{}.alist", dir, idx);
    let ipath = format!("{}/enc-{}.in", dir, idx);
    let opath = format!("{}/enc-{}.out", dir, idx);
    write_file(&apath, h.alist().as_bytes());
    // pattern: none, or one whose length divides n
    let lens: Vec<usize> = (2..=9).filter(|x| n % x == 0).collect();
    let pattern: Option<Vec<bool>> = if rng.chance(0.3) || lens.is_empty() {
        None
    } else {
        let len = *rng.pick(&lens);
        let mut p: Vec<bool> = (0..len).map(|_| rng.chance(0.75)).collect();
        let i = rng.below(len);
        p[i] = true;
        Some(p)
    };
    let ps = pattern.as_ref().map(|p| p.iter().map(|&b| if b { "1" } else { "0" }).collect::<Vec<_>>().join(","));
    // mostly a handful of words; every 8th case a long input (tens of kilobytes, several I/O buffers)
    let words = if wide { rng.range(1, 3) } else if idx % 8 == 3 { rng.range(600, 2500) } else { rng.range(0, 5) };
    let partial = rng.range(0, k - 1);
    let input: Vec<u8> = (0..words * k + partial).map(|_| rng.coin() as u8).collect();
    // the input is a regular file, or (every 5th case) a named pipe that the harness feeds in uneven chunks:
    // the tool must read to end-of-file whatever kind of file it is given, and cope with short reads
    let fifo = idx % 5 == 2 && !cfg!(miri);
    let _ = std::fs::remove_file(&ipath);
    let mut feeder = None;
    if fifo {
        let c = std::ffi::CString::new(ipath.clone()).unwrap();
        if unsafe { libc::mkfifo(c.as_ptr(), 0o600) } != 0 {
            l.inconclusive("mkfifo failed");
            return;
        }
        let data = input.clone();
        let path = ipath.clone();
        let chunk_seed = rng.next_u64();
        feeder = Some(std::thread::spawn(move || {
            use std::io::Write;
            use std::os::unix::io::FromRawFd;
            let c = std::ffi::CString::new(path).unwrap();
            // wait (at most 60 s) for the tool to open the pipe; never block for ever if it does not
            let t0 = std::time::Instant::now();
            let fd = loop {
                let fd = unsafe { libc::open(c.as_ptr(), libc::O_WRONLY | libc::O_NONBLOCK) };
                if fd >= 0 {
                    break fd;
                }
                if t0.elapsed().as_secs() > 60 {
                    return;
                }
                std::thread::sleep(std::time::Duration::from_millis(2));
            };
            unsafe {
                let fl = libc::fcntl(fd, libc::F_GETFL);
                libc::fcntl(fd, libc::F_SETFL, fl & !libc::O_NONBLOCK);
            }
            let mut f = unsafe { std::fs::File::from_raw_fd(fd) };
            let mut r = Rng::new(chunk_seed);
            let mut pos = 0;
            while pos < data.len() {
                let n = r.range(1, 700).min(data.len() - pos);
                if f.write_all(&data[pos..pos + n]).is_err() {
                    return;
                }
                pos += n;
                if r.chance(0.2) {
                    std::thread::sleep(std::time::Duration::from_micros(200));
                }
            }
        }));
    } else {
        write_file(&ipath, &input);
    }
    // the output path either does not exist or already holds a (longer) file from an earlier run
    let _ = std::fs::remove_file(&opath);
    let preexisting = rng.chance(0.5);
    if preexisting {
        write_file(&opath, &vec![0x55u8; words * n + rng.range(1, 300)]);
    }
    let enc = Encoder::from_h(&h).expect("encoder");
    let mut want: Vec<u8> = Vec::new();
    for w in 0..words {
        let cw = enc.encode(&to_gf2(&input[w * k..(w + 1) * k]));
        match &pattern {
            None => want.extend(from_gf2(&cw)),
            Some(p) => want.extend(from_gf2(&Puncturer::new(p).puncture(&cw).unwrap())),
        }
    }
    let mut args = vec!["encode", apath.as_str(), ipath.as_str(), opath.as_str()];
    if let Some(ps) = &ps {
        args.push("--puncturing");
        args.push(ps);
    }
    let res = cli(l, &args, 60);
    if let Some(f) = feeder {
        let _ = f.join();
        // from here on the input path is a regular file again (the invalid invocations below read it)
        let _ = std::fs::remove_file(&ipath);
        write_file(&ipath, &input);
        l.count("encode_input_through_named_pipe");
    }
    if let Some((code, _out, err)) = res {
        let got = std::fs::read(&opath).unwrap_or_default();
        let det = || {
            J::obj()
                .set("input_is_a_named_pipe", fifo)
                .set("n", n)
                .set("k", k)
                .set("puncturing", ps.clone())
                .set("complete_words", words)
                .set("trailing_partial_bytes", partial)
                .set("output_file_existed_before_with_more_bytes", preexisting)
                .set("exit", code)
                .set("stderr", err.chars().take(200).collect::<String>())
                .set("output_bytes", got.len())
                .set("expected_bytes", want.len())
        };
        if code != 0 {
            l.violation("encode fails for a valid invocation", det());
        } else if got.len() != want.len() {
            l.violation(
                format!("encode output has the wrong length ({})", if ps.is_some() { "with puncturing" } else { "without puncturing" }),
                det(),
            );
        } else if got != want {
            l.violation(
                format!("encode output is not the concatenation of the (punctured) codewords ({})", if ps.is_some() { "with puncturing" } else { "without puncturing" }),
                det(),
            );
        } else {
            let mut d = Dig::new();
            d.entries(&m.e).s(ps.as_deref().unwrap_or("-"));
            for &b in &input {
                d.u(b as u64);
            }
            l.nt(d.get());
            l.sample(|| det().set("invocation", format!("{:?}", args)).set("output_equals_punctured_codewords", true));
        }
    }
    // invalid patterns
    if idx % 4 == 0 {
        for bad in ["1,2", "1,,0", "a", "1,0,", "", ",", " "] {
            expect_failure(l, "an invalid puncturing pattern given to encode", &["encode", &apath, &ipath, &opath, "--puncturing", bad]);
        }
        if words > 0 {
            if let Some(len) = (2..=9).find(|x| n % x != 0) {
                let p = vec!["1"; len].join(",");
                expect_failure(l, "a puncturing pattern that does not divide the codeword length given to encode", &["encode", &apath, &ipath, &opath, "--puncturing", &p]);
            }
        }
        expect_failure(l, "an unreadable alist file given to encode", &["encode", "/verif/target/legs/missing.alist", &ipath, &opath]);
    }
    for p in [&apath, &ipath, &opath] {
        let _ = std::fs::remove_file(p);
    }
}

fn ber_cmd(l: &mut Local, rng: &mut Rng, dir: &str, idx: u64) {
    // slow frames (one case in 24): DVB-S2 short 1/4 far below its threshold with 300 iterations, so that a single
    // frame takes longer than the front end's reporting interval (500 ms) and reports arrive one by one
    let slow = idx % 24 == 17 && !cfg!(miri);
    let (r, n) = if slow { (12_960usize, 16_200usize) } else { *rng.pick(&[(6usize, 12usize), (12, 24), (5, 15)]) };
    let m = if slow {
        let h = ldpc_toolbox::codes::dvbs2::Code::R1_4short.h();
        Mat::new(h.num_rows(), h.num_cols(), crate::genm::from_sparse(&h), "dvbs2-short-1/4")
    } else {
        ra_code(rng, r, n)
    };
    let k = n - r;
    let apath = format!("{}/ber-{}.alist", dir, idx);
    let opath = format!("{}/ber-{}.txt", dir, idx);
    let lpath = format!("{}/ber-{}-ldpc.txt", dir, idx);
    write_file(&apath, m.to_sparse().alist().as_bytes());
    let npoints = if slow { 2 } else { rng.range(1, 4) };
    let min = if slow { -6.0 } else { *rng.pick(&[-2.0f64, -1.0, 0.0, 1.0]) };
    let step = *rng.pick(&[0.5f64, 1.0, 0.25]);
    let max = min + step * (npoints as f64 - 1.0) + step * 0.4;
    let fe = if slow { 1 } else { rng.range(3, 25) };
    let bch = if !slow && rng.chance(0.3) { rng.range(1, 2) } else { 0 };
    let dec = if slow { "Phif64" } else { *rng.pick(&["Phif64", "Minstarapproxi8", "HLAminstarf32", "Tanhf32"]) };
    let (mins, maxs, steps, fes, bchs) = (format!("--min-ebn0={}", min), format!("--max-ebn0={}", max), format!("--step-ebn0={}", step), fe.to_string(), bch.to_string());
    let mut args = vec!["ber", mins.as_str(), maxs.as_str(), steps.as_str(), "--frame-errors", fes.as_str(), "--max-iter", if slow { "300" } else { "5" }, "--decoder", dec, "--output-file", opath.as_str()];
    // optional valid processing chain: tail puncturing (pattern length dividing n), interleaver dividing the frame, 8PSK
    let plen = (3..=6).find(|x| n % x == 0);
    let punct = if !slow && rng.chance(0.4) { plen.map(|x| { let mut v = vec!["1"; x]; v[x - 1] = "0"; v.join(",") }) } else { None };
    let nframe = match (&punct, plen) { (Some(_), Some(x)) => n / x * (x - 1), _ => n };
    let ilv = if !slow && rng.chance(0.4) { (2..=4).find(|c| nframe % c == 0).map(|c| if rng.coin() { c.to_string() } else { format!("-{}", c) }) } else { None };
    let ilv_arg = ilv.as_ref().map(|c| format!("--interleaving={}", c));
    let psk8 = !slow && nframe % 3 == 0 && rng.chance(0.4);
    if let Some(p) = &punct {
        args.push("--puncturing");
        args.push(p);
    }
    if let Some(a) = &ilv_arg {
        args.push(a);
    }
    if psk8 {
        // (the command line's own value list calls it PSK8; "8PSK" is what Display prints)
        args.push("--modulation");
        args.push("PSK8");
    }
    if bch > 0 {
        args.push("--bch-max-errors");
        args.push(&bchs);
        args.push("--output-file-ldpc");
        args.push(&lpath);
    }
    args.push(&apath);
    let _ = std::fs::remove_file(&opath);
    if slow {
        l.count("ber_runs_with_slow_frames");
    }
    if let Some((code, _out, err)) = cli(l, &args, if slow { 600 } else { 120 }) {
        let text = std::fs::read_to_string(&opath).unwrap_or_default();
        let det = |what: String| J::obj().set("args", format!("{:?}", args)).set("exit", code).set("stderr", err.chars().take(200).collect::<String>()).set("what", what).set("output_file", text.chars().take(1500).collect::<String>());
        if code != 0 {
            l.violation("ber fails for a valid invocation", det("exit".into()));
        } else {
            // result lines: after the table header separator
            let mut lines: Vec<&str> = Vec::new();
            let mut in_table = false;
            for ln in text.lines() {
                if ln.starts_with("--------|") {
                    in_table = true;
                    continue;
                }
                if in_table && ln.contains('|') {
                    lines.push(ln);
                }
            }
            if lines.len() != npoints {
                l.violation("ber does not write one result line per requested Eb/N0", det(format!("{} result lines for {} points", lines.len(), npoints)));
            } else {
                let mut ok = true;
                for (i, ln) in lines.iter().enumerate() {
                    let f: Vec<&str> = ln.split('|').map(|x| x.trim()).collect();
                    if f.len() != 11 {
                        l.violation("a ber result line does not have 11 fields", det(ln.to_string()));
                        ok = false;
                        break;
                    }
                    let eb: f64 = f[0].parse().unwrap_or(f64::NAN);
                    let frames: f64 = f[1].parse().unwrap_or(f64::NAN);
                    let biterr: f64 = f[2].parse().unwrap_or(f64::NAN);
                    let frerr: f64 = f[3].parse().unwrap_or(f64::NAN);
                    let falsed: f64 = f[4].parse().unwrap_or(f64::NAN);
                    let ber: f64 = f[5].parse().unwrap_or(f64::NAN);
                    let fer: f64 = f[6].parse().unwrap_or(f64::NAN);
                    let want_eb = ((min + i as f64 * step) as f32) as f64;
                    let bad = if (eb - want_eb).abs() > 0.006 {
                        Some(format!("Eb/N0 {} expected {}", eb, want_eb))
                    } else if !(frames >= frerr) || frerr != fe as f64 {
                        Some(format!("frames {} frame errors {} requested {}", frames, frerr, fe))
                    } else if falsed > frerr && bch == 0 {
                        Some(format!("false decodes {} > frame errors {}", falsed, frerr))
                    } else if biterr < frerr {
                        Some(format!("bit errors {} < frame errors {}", biterr, frerr))
                    } else if (ber - biterr / (k as f64 * frames)).abs() > 0.006 * ber.abs() + 1e-12 {
                        Some(format!("BER {} is not bit errors {} / (k {} * frames {})", ber, biterr, k, frames))
                    } else if (fer - frerr / frames).abs() > 0.006 * fer.abs() + 1e-12 {
                        Some(format!("FER {} is not frame errors {} / frames {}", fer, frerr, frames))
                    } else {
                        None
                    };
                    if let Some(why) = bad {
                        l.violation("a ber result line violates the statistics identities", det(why));
                        ok = false;
                        break;
                    }
                }
                if ok {
                    let mut d = Dig::new();
                    d.s(&format!("{:?}", args));
                    l.nt(d.get());
                    l.count_n("ber_result_lines_checked", lines.len() as u64);
                }
            }
        }
    }
    if idx % 3 == 0 && !slow {
        for bad in ["1,2", "", "1,1,"] {
            let parg = format!("--puncturing={}", bad);
            expect_failure(l, "an invalid puncturing pattern given to ber", &["ber", "--min-ebn0=0", "--max-ebn0=0", "--step-ebn0=1", "--frame-errors", "1", &parg, &apath]);
        }
        // interleaver columns that do not divide the frame: must be an error, not a hang or a panic of the tool
        let c = (2..=7).find(|c| n % c != 0).unwrap_or(5).to_string();
        let iargs = ["ber", "--min-ebn0=0", "--max-ebn0=0", "--step-ebn0=1", "--frame-errors", "2", "--interleaving", &c, &apath];
        if let Some((code, _o, err)) = cli_opt(l, &iargs, 60, true) {
            if code == 0 || err.trim().is_empty() {
                l.violation("exit status 0 or no message for interleaver columns that do not divide the frame length given to ber", J::obj().set("args", format!("{:?}", iargs)).set("exit", code));
            } else {
                l.count("invalid_invocations_rejected");
            }
        }
        expect_failure(l, "an unknown decoder name given to ber", &["ber", "--min-ebn0=0", "--max-ebn0=0", "--step-ebn0=1", "--decoder", "phif64", &apath]);
    }
    for p in [&apath, &opath, &lpath] {
        let _ = std::fs::remove_file(p);
    }
}

pub fn run(run: &mut Run) {
    run.rule = "the real binary (built from the working tree) in child processes: dvbs2 / ccsds / ccsds-c2 EXHAUSTIVE over their valid argument spaces (stdout must equal alist() of the library matrix, --girth lines; 6 for DVB-S2 1/2 and CCSDS 1/2 k=1024; all girths in thorough) plus invalid rates/sizes (exit != 0, message, no panic); sampled peg / mackay-neal (all flags, --search with sequential re-run of the seed range) / systematic (incl. inputs whose tail is already invertible, rank-deficient and unreadable inputs) / encode (n in {6..70}, puncturing patterns of length 2..9 dividing n incl. 6-of-7, 0..4 complete words plus a trailing partial word, invalid and non-dividing patterns) / ber (1..4 Eb/N0 points, 3..25 frame errors, with/without outer-code threshold; one run in 24 on DVB-S2 short 1/4 at -6 dB with 300 iterations, where one frame takes longer than the reporting interval: one result line per point, frames >= errors, frame errors = requested, BER and FER = stated ratios to printed precision; invalid pattern, non-fitting interleaver, unknown decoder => exit != 0 without hang); non-trivial = every invocation judged (distinct by argument vector / file contents)".into();
    run.exhaustive = None;
    if !std::path::Path::new(BIN).exists() {
        run.merged.inconclusive(format!("binary {} not built", BIN));
        return;
    }
    let tier = run.tier;
    let dir = tmpdir();
    run.sub_seq("code-generation-exhaustive", 1, move |l, _i, _rng| codegen(l, tier));
    let n = run.tier.n(400, 8000);
    run.sub("constructions", n, |l, _i, rng| constructions(l, rng));
    let d1 = dir.clone();
    run.sub("systematic", run.tier.n(500, 10_000), move |l, i, rng| systematic_cmd(l, rng, &d1, i));
    let d2 = dir.clone();
    run.sub("encode", run.tier.n(700, 15_000), move |l, i, rng| encode_cmd(l, rng, &d2, i));
    let d3 = dir.clone();
    run.sub_threads("ber", run.tier.n(24, 300), 2, move |l, i, rng| ber_cmd(l, rng, &d3, i));
    let _ = std::fs::remove_dir_all(&dir);
    let _ = from_sparse(&SparseMatrix::new(1, 1));
}
