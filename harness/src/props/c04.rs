//! C04 – every arithmetic's check-node message is a faithful (approximate) box-plus.

use crate::ctx::{Local, Run, guard, panic_class};
use crate::impls::{ARITH_NAMES, has_phl, is_amin, is_i8, is_minstarapprox};
use crate::json::{J, jfs};
use crate::num::Num;
use crate::oracle::{boxplus_all, boxplus_excl, boxplus_excl_logtanh, corr8};
use crate::rng::{Dig, Rng};
use crate::with_arith;
use ldpc_toolbox::decoder::arithmetic::DecoderArithmetic;
use ldpc_toolbox::decoder::{Message, SentMessage};

const LN2: f64 = std::f64::consts::LN_2;

/// Call the check-node rule on (source, value) pairs; returns (dest, value) emissions.
pub fn call_check<A>(a: &mut A, src: &[usize], vals: &[f64]) -> Result<Vec<(usize, f64)>, String>
where
    A: DecoderArithmetic,
    A::VarMessage: Num,
    A::CheckMessage: Num,
{
    let msgs: Vec<Message<A::VarMessage>> = src
        .iter()
        .zip(vals)
        .map(|(&s, &v)| Message {
            source: s,
            value: <A::VarMessage as Num>::from_f64(v),
        })
        .collect();
    let mut out: Vec<(usize, f64)> = Vec::with_capacity(msgs.len());
    guard(|| {
        a.send_check_messages(&msgs, |m: SentMessage<A::CheckMessage>| out.push((m.dest, m.value.to_f64())));
    })?;
    Ok(out)
}

/// real-valued counterpart of the 8-bit min*-approx fold (units of 1/8 LLR), exact correction term
fn real_minstar_approx_fold(vals: &[f64]) -> f64 {
    let mut it = vals.iter();
    let mut acc = it.next().unwrap().abs();
    for &x in it {
        let x = x.abs();
        acc = (x.min(acc) - 8.0 * (-(x - acc).abs() / 8.0).exp().ln_1p()).max(0.0);
    }
    acc
}

struct Ctx<'a> {
    name: &'a str,
    i8t: bool,
    f32t: bool,
    u: f64,
}

fn detail(cx: &Ctx, src: &[usize], vals: &[f64], out: &[(usize, f64)], what: String) -> J {
    J::obj()
        .set("arithmetic", cx.name)
        .set("sources", src.iter().map(|&x| x as u64).collect::<Vec<_>>())
        .set("values", jfs(vals))
        .set("emitted", J::A(out.iter().map(|&(d, v)| J::S(format!("{}:{}", d, v))).collect()))
        .set("what", what)
}

/// Judge one check-node call. `vals` are the values actually given (already
/// representable in the message type).
fn judge(l: &mut Local, cx: &Ctx, src: &[usize], vals: &[f64], out: &[(usize, f64)], in_range: bool) -> bool {
    let d = vals.len();
    let name = cx.name;
    // ---- structural
    if out.len() != d {
        l.violation(format!("{}: number of emitted messages != degree", name), detail(cx, src, vals, out, format!("{} emissions for degree {}", out.len(), d)));
        return false;
    }
    let mut dests: Vec<usize> = out.iter().map(|x| x.0).collect();
    dests.sort_unstable();
    let mut s2 = src.to_vec();
    s2.sort_unstable();
    if dests != s2 {
        l.violation(format!("{}: emitted destinations are not exactly the neighbours (one each)", name), detail(cx, src, vals, out, "dest set".into()));
        return false;
    }
    for &(dst, v) in out {
        if !v.is_finite() {
            l.violation(format!("{}: non-finite check message", name), detail(cx, src, vals, out, format!("dest {} value {}", dst, v)));
            return false;
        }
        if cx.i8t && v == -128.0 {
            l.violation(format!("{}: emitted -128", name), detail(cx, src, vals, out, format!("dest {}", dst)));
            return false;
        }
    }
    let scale = if cx.i8t { 8.0 } else { 1.0 };
    let llr: Vec<f64> = vals.iter().map(|v| v / scale).collect();
    let minmag = |j: usize| -> f64 {
        vals.iter().enumerate().filter(|(i, _)| *i != j).map(|(_, v)| v.abs()).fold(f64::INFINITY, f64::min)
    };
    let sign_others = |j: usize| -> f64 {
        let neg = vals.iter().enumerate().filter(|(i, v)| *i != j && **v < 0.0).count();
        if neg % 2 == 1 { -1.0 } else { 1.0 }
    };
    let min_all = vals.iter().map(|v| v.abs()).fold(f64::INFINITY, f64::min);
    let n_min = vals.iter().filter(|v| v.abs() == min_all).count();
    let total = boxplus_all(&llr); // signed box-plus of all inputs (LLR units)
    let mut worst: f64 = 0.0;
    for (j, &s) in src.iter().enumerate() {
        let o = out.iter().find(|x| x.0 == s).unwrap().1;
        let e = boxplus_excl(&llr, j); // exact extrinsic, LLR units, signed
        let e_s = e * scale; // in the type's units
        let so = sign_others(j);
        let mm = minmag(j);
        // tolerance and expectation per family
        let (lo, hi, tol, rule): (f64, f64, f64, &str);
        if !cx.i8t {
            let u = cx.u;
            if name.starts_with("Phi") || name.starts_with("Tanh") {
                if !in_range {
                    // saturating region: structural checks only (plus sign when clearly non-zero and magnitude bound)
                    continue;
                }
                let t = (32.0 * d as f64 + 160.0) * u * e.abs().max(o.abs()).exp() + 64.0 * u * (1.0 + e.abs());
                lo = e.abs() - t;
                hi = e.abs() + t;
                tol = t;
                rule = "exact box-plus (phi/tanh)";
            } else if is_amin(name) {
                let rt = if cx.f32t { 1e-4 } else { 1e-9 };
                // either "I am the arg-min" (exact extrinsic) or "not the arg-min" (box-plus of all inputs)
                let as_argmin = e.abs();
                let as_other = total.abs();
                let can_be_argmin = vals[j].abs() == min_all;
                let can_be_other = !(can_be_argmin && n_min == 1);
                let t1 = rt * (1.0 + as_argmin);
                let t2 = rt * (1.0 + as_other);
                let ok1 = can_be_argmin && (o.abs() - as_argmin).abs() <= t1;
                let ok2 = can_be_other && (o.abs() - as_other).abs() <= t2;
                if !(ok1 || ok2) {
                    l.violation(
                        format!("{}: A-Min* message is neither the exact extrinsic (arg-min) nor the box-plus of all inputs (others)", name),
                        detail(cx, src, vals, out, format!("neighbour {} got {} ; extrinsic {} ; all-input box-plus {} ; can_be_argmin={}", s, o, e, total, can_be_argmin)),
                    );
                    return false;
                }
                let t = if ok1 { t1 } else { t2 };
                if o.abs() > t && o.signum() != so {
                    l.violation(format!("{}: sign is not the product of the other signs", name), detail(cx, src, vals, out, format!("neighbour {} got {} expected sign {}", s, o, so)));
                    return false;
                }
                if o.abs() > mm + t {
                    l.violation(format!("{}: magnitude exceeds the smallest other magnitude", name), detail(cx, src, vals, out, format!("neighbour {} got {} min other {}", s, o, mm)));
                    return false;
                }
                worst = worst.max(if ok1 { (o.abs() - as_argmin).abs() } else { (o.abs() - as_other).abs() });
                continue;
            } else {
                // min*-approx float
                let rt = if cx.f32t { 1e-4 } else { 1e-9 };
                let t = rt * (1.0 + e.abs());
                lo = (e.abs() - (d as f64 - 2.0) * LN2).max(0.0) - t;
                hi = e.abs() + t;
                tol = t;
                rule = "min*-approx envelope [|e|-(d-2)ln2, |e|]";
            }
        } else {
            // 8-bit types, units of 1/8
            let phl = has_phl(name);
            let (r_val, acc): (f64, f64);
            if is_amin(name) {
                acc = 1.0 * (d as f64 - 1.0);
                let as_argmin = e_s.abs();
                let as_other = (total * scale).abs();
                let can_be_argmin = vals[j].abs() == min_all;
                let can_be_other = !(can_be_argmin && n_min == 1);
                let okv = |r: f64| -> bool {
                    if phl {
                        if r >= 100.0 + acc {
                            o.abs() == 127.0
                        } else if r <= 100.0 - acc {
                            (o.abs() - r).abs() <= acc && o.abs() < 100.0
                        } else {
                            o.abs() == 127.0 || ((o.abs() - r).abs() <= acc && o.abs() < 100.0)
                        }
                    } else {
                        (o.abs() - r).abs() <= acc
                    }
                };
                let ok1 = can_be_argmin && okv(as_argmin);
                let ok2 = can_be_other && okv(as_other);
                if !(ok1 || ok2) {
                    l.violation(
                        format!("{}: 8-bit A-Min* message does not track its real-valued counterpart within accumulated table rounding", name),
                        detail(cx, src, vals, out, format!("neighbour {} got {} ; 8*extrinsic {} ; 8*all-input {} ; allowed error {}", s, o, as_argmin, as_other, acc)),
                    );
                    return false;
                }
                if o.abs() > acc && o.signum() != so {
                    l.violation(format!("{}: sign is not the product of the other signs", name), detail(cx, src, vals, out, format!("neighbour {} got {} expected sign {}", s, o, so)));
                    return false;
                }
                let promoted = phl && o.abs() == 127.0;
                if !promoted && o.abs() > mm + acc {
                    l.violation(format!("{}: magnitude exceeds the smallest other magnitude", name), detail(cx, src, vals, out, format!("neighbour {} got {} min other {}", s, o, mm)));
                    return false;
                }
                worst = worst.max(if ok1 { (o.abs() - as_argmin).abs() } else { (o.abs() - as_other).abs() });
                continue;
            }
            // min*-approx 8-bit
            acc = 0.5 * (d as f64 - 2.0);
            if d <= 3 {
                // order independent: compare with the real-valued counterpart of the same rule
                let others: Vec<f64> = vals.iter().enumerate().filter(|(i, _)| *i != j).map(|(_, v)| *v).collect();
                r_val = real_minstar_approx_fold(&others);
                let okv = if phl {
                    if r_val >= 100.0 + acc + 1e-9 {
                        o.abs() == 127.0
                    } else if r_val < 100.0 - acc - 1e-9 {
                        (o.abs() - r_val).abs() <= acc + 1e-9 && o.abs() < 100.0
                    } else {
                        o.abs() == 127.0 || (o.abs() - r_val).abs() <= acc + 1e-9
                    }
                } else {
                    (o.abs() - r_val).abs() <= acc + 1e-9
                };
                if !okv {
                    l.violation(
                        format!("{}: 8-bit min*-approx message does not track its real-valued counterpart within table rounding (degree {})", name, d),
                        detail(cx, src, vals, out, format!("neighbour {} got {} ; real counterpart {} ; allowed {}", s, o, r_val, acc)),
                    );
                    return false;
                }
                if o != 0.0 && o.signum() != so {
                    l.violation(format!("{}: sign is not the product of the other signs", name), detail(cx, src, vals, out, format!("neighbour {} got {} expected sign {}", s, o, so)));
                    return false;
                }
                worst = worst.max((o.abs() - r_val).abs());
                continue;
            }
            let promoted = phl && o.abs() == 127.0;
            lo = (e_s.abs() - 8.0 * (d as f64 - 2.0) * LN2).max(0.0) - acc - 1e-9;
            hi = if promoted { 127.0 } else { e_s.abs() + acc + 1e-9 };
            if promoted && e_s.abs() + acc < 100.0 {
                l.violation(format!("{}: partial hard limit promoted a magnitude below 100", name), detail(cx, src, vals, out, format!("neighbour {} got {} ; 8*extrinsic {}", s, o, e_s)));
                return false;
            }
            if phl && !promoted && o.abs() >= 100.0 {
                l.violation(format!("{}: magnitude >= 100 not promoted to 127", name), detail(cx, src, vals, out, format!("neighbour {} got {}", s, o)));
                return false;
            }
            tol = acc;
            rule = "8-bit min*-approx envelope";
            if o.abs() < lo || o.abs() > hi {
                l.violation(
                    format!("{}: check message outside the {} (degree >= 4)", name, rule),
                    detail(cx, src, vals, out, format!("neighbour {} got {} ; allowed [{}, {}]", s, o, lo, hi)),
                );
                return false;
            }
            if o.abs() > tol && o.signum() != so {
                l.violation(format!("{}: sign is not the product of the other signs", name), detail(cx, src, vals, out, format!("neighbour {} got {} expected sign {}", s, o, so)));
                return false;
            }
            if !promoted && o.abs() > mm + tol {
                l.violation(format!("{}: magnitude exceeds the smallest other magnitude", name), detail(cx, src, vals, out, format!("neighbour {} got {} min other {}", s, o, mm)));
                return false;
            }
            continue;
        }
        // float families with [lo,hi]
        if o.abs() < lo || o.abs() > hi {
            l.violation(
                format!("{}: check message deviates from the {}", name, rule),
                detail(cx, src, vals, out, format!("neighbour {} got {} ; exact extrinsic {} ; allowed magnitude [{}, {}]", s, o, e, lo, hi)),
            );
            return false;
        }
        if o.abs() > tol && e.abs() > tol && o.signum() != so {
            l.violation(format!("{}: sign is not the product of the other signs", name), detail(cx, src, vals, out, format!("neighbour {} got {} expected sign {}", s, o, so)));
            return false;
        }
        if o.abs() > mm + tol {
            l.violation(format!("{}: magnitude exceeds the smallest other magnitude", name), detail(cx, src, vals, out, format!("neighbour {} got {} min other {}", s, o, mm)));
            return false;
        }
        worst = worst.max((o.abs() - e.abs()).abs());
    }
    l.max(&format!("max_abs_dev:{}", name), worst);
    true
}

fn gen_values(rng: &mut Rng, cx: &Ctx, d: usize, range: f64) -> (Vec<f64>, bool) {
    // returns values already representable in the message type and whether they are in the working range
    let class = rng.below(10);
    let mut in_range = true;
    let v: Vec<f64> = if cx.i8t {
        match class {
            0 => (0..d).map(|_| rng.irange(-127, 127) as f64).collect(),
            1 => (0..d).map(|i| if i == 0 { rng.irange(-3, 3) as f64 } else { rng.irange(90, 127) as f64 * rng.sign() }).collect(),
            2 => {
                let m = rng.irange(0, 127) as f64;
                (0..d).map(|_| m * rng.sign()).collect()
            }
            3 => (0..d).map(|_| if rng.chance(0.3) { 0.0 } else { rng.irange(-127, 127) as f64 }).collect(),
            4 => {
                let m = rng.irange(1, 126);
                (0..d).map(|_| (m + rng.irange(-1, 1)) as f64 * rng.sign()).collect()
            }
            5 => (0..d).map(|i| if i % 2 == 0 { 127.0 } else { -127.0 }).collect(),
            6 => (0..d).map(|_| rng.irange(95, 127) as f64 * rng.sign()).collect(),
            7 => (0..d).map(|_| rng.irange(-24, 24) as f64).collect(),
            _ => (0..d).map(|_| 127.0 * rng.sign()).collect(),
        }
    } else {
        let raw: Vec<f64> = match class {
            0 => (0..d).map(|_| rng.uniform(-range, range)).collect(),
            1 => (0..d).map(|i| if i == 0 { rng.uniform(-0.01, 0.01) } else { rng.uniform(range * 0.6, range) * rng.sign() }).collect(),
            2 => {
                let m = rng.uniform(0.0, range);
                (0..d).map(|_| m * rng.sign()).collect()
            }
            3 => (0..d).map(|_| if rng.chance(0.3) { if rng.coin() { 0.0 } else { -0.0 } } else { rng.uniform(-range, range) }).collect(),
            4 => {
                let m = rng.uniform(0.1, range);
                (0..d).map(|_| m * (1.0 + rng.uniform(-1e-6, 1e-6)) * rng.sign()).collect()
            }
            5 => (0..d).map(|i| rng.uniform(0.5, range) * if i % 2 == 0 { 1.0 } else { -1.0 }).collect(),
            6 => (0..d).map(|_| rng.uniform(-4.0, 4.0)).collect(),
            // near-erasures: one to three inputs just above zero (1e-20 .. 1e-7, where intermediate results of an
            // incremental box-plus round to +-tiny or cancel) among ordinary ones, at random positions
            9 => {
                let mut v: Vec<f64> = (0..d).map(|_| rng.uniform(0.05, 3.0) * rng.sign()).collect();
                for _ in 0..rng.range(1, 3.min(d)) {
                    let i = rng.below(d);
                    v[i] = rng.logu(-20.0, -7.0) * rng.sign();
                }
                v
            }
            7 => {
                // beyond the working range: structural checks only for phi/tanh
                in_range = false;
                (0..d).map(|_| rng.logu(1.6, 6.0) * rng.sign()).collect()
            }
            _ => (0..d).map(|_| rng.normal() * 2.0).collect(),
        };
        if cx.f32t { raw.into_iter().map(|x| x as f32 as f64).collect() } else { raw }
    };
    (v, in_range)
}

fn run_generic<A>(l: &mut Local, name: &str, mk: &dyn Fn() -> A, rng: &mut Rng, calls: usize)
where
    A: DecoderArithmetic,
    A::VarMessage: Num,
    A::CheckMessage: Num,
    A::VarLlr: Num,
{
    let i8t = is_i8(name);
    let f32t = name.ends_with("f32");
    let cx = Ctx {
        name,
        i8t,
        f32t,
        u: if f32t { <f32 as Num>::U } else { <f64 as Num>::U },
    };
    let range = if i8t { 127.0 } else if f32t { 12.0 } else { 30.0 };
    // ONE long-lived arithmetic object for the whole sequence of calls, with
    // degrees going up and down (scratch buffers inside the object).
    let mut a = mk();
    for k in 0..calls {
        let d = match k % 5 {
            0 => rng.range(8, 30),
            1 => rng.range(2, 4),
            // now and then a check node far above the usual degrees (fixed-size scratch space would show here)
            2 if k % 25 == 7 => rng.range(31, 90),
            _ => rng.range(2, 30),
        };
        let (vals, in_range) = gen_values(rng, &cx, d, range);
        // arbitrary, non-contiguous, shuffled source ids
        let mut src = rng.choose(1000, d);
        rng.shuffle(&mut src);
        l.eval();
        match call_check(&mut a, &src, &vals) {
            Err(p) => {
                l.violation(format!("{}: send_check_messages panicked: {}", name, panic_class(&p)), detail(&cx, &src, &vals, &[], p));
                a = mk();
            }
            Ok(out) => {
                let ok = judge(l, &cx, &src, &vals, &out, in_range);
                if ok && (d >= 3 || vals.iter().all(|v| *v != 0.0)) {
                    let mut dg = Dig::new();
                    dg.s(name).fs(&vals);
                    l.nt(dg.get());
                }
                if k == 0 {
                    l.sample(|| detail(&cx, &src, &vals, &out, "sample".into()));
                }
            }
        }
        // the same check node through the layered entry point: with all old messages zero the extrinsic values are
        // the variable values themselves, so the new messages are check-node messages for `vals` and are judged alike
        if k % 3 == 0 {
            let mut msgs: Vec<SentMessage<A::CheckMessage>> = src.iter().map(|&s| SentMessage { dest: s, value: <A::CheckMessage as Num>::from_f64(0.0) }).collect();
            let mut vars: Vec<A::VarLlr> = vec![<A::VarLlr as Num>::from_f64(0.0); 1000];
            for (&s, &v) in src.iter().zip(&vals) {
                vars[s] = <A::VarLlr as Num>::from_f64(v);
            }
            l.eval();
            match guard(|| a.update_check_messages_and_vars(&mut msgs, &mut vars)) {
                Err(p) => {
                    l.violation(format!("{}: update_check_messages_and_vars panicked: {}", name, panic_class(&p)), detail(&cx, &src, &vals, &[], p));
                    a = mk();
                }
                Ok(()) => {
                    let out: Vec<(usize, f64)> = msgs.iter().map(|m| (m.dest, m.value.to_f64())).collect();
                    l.count("layered_entry_point_calls");
                    judge(l, &cx, &src, &vals, &out, in_range);
                }
            }
        }
    }
}

/// exhaustive degree-2 / degree-3 sweeps for the 8-bit types
fn run_exhaustive8<A>(l: &mut Local, name: &str, mk: &dyn Fn() -> A, deg: usize, first: i64)
where
    A: DecoderArithmetic,
    A::VarMessage: Num,
    A::CheckMessage: Num,
{
    let cx = Ctx { name, i8t: true, f32t: false, u: 0.0 };
    let mut a = mk();
    let src: Vec<usize> = if deg == 2 { vec![7, 3] } else { vec![7, 3, 11] };
    let mut nt = 0u64;
    for y in -127..=127i64 {
        if deg == 2 {
            let vals = [first as f64, y as f64];
            l.eval();
            match call_check(&mut a, &src, &vals) {
                Err(p) => {
                    l.violation(format!("{}: send_check_messages panicked: {}", name, panic_class(&p)), detail(&cx, &src, &vals, &[], p));
                    return;
                }
                Ok(out) => {
                    if !judge(l, &cx, &src, &vals, &out, true) {
                        return;
                    }
                    if first != 0 && y != 0 {
                        nt += 1;
                    }
                }
            }
        } else {
            for z in -127..=127i64 {
                let vals = [first as f64, y as f64, z as f64];
                l.eval();
                match call_check(&mut a, &src, &vals) {
                    Err(p) => {
                        l.violation(format!("{}: send_check_messages panicked: {}", name, panic_class(&p)), detail(&cx, &src, &vals, &[], p));
                        return;
                    }
                    Ok(out) => {
                        if !judge(l, &cx, &src, &vals, &out, true) {
                            return;
                        }
                        nt += 1;
                    }
                }
            }
        }
    }
    // count the distinct non-trivial inputs of this slice (they are all distinct by construction)
    let mut dg = Dig::new();
    dg.s(name).u(deg as u64).u(first as u64);
    let base = dg.get();
    for k in 0..nt.min(512) {
        l.nt(base.wrapping_add(k));
    }
    l.count_n("exhaustive_inputs", nt);
}

pub fn run(run: &mut Run) {
    run.rule = "direct calls of send_check_messages on public Message values with arbitrary shuffled source ids, ONE long-lived arithmetic object per sequence with degrees going up and down (2..30); 24 types x value classes {uniform in working range, one tiny among large, all equal, exact +-0, near ties, alternating signs, near 127, beyond range (structural only for phi/tanh)}; oracle = stable f64 box-plus (cross-checked against a log-tanh formulation); 8-bit types: degree 2 exhaustive for all 16 types (quick) and degree 3 exhaustive (thorough) against the real-valued counterpart within 0.5(d-2) resp. 1.0(d-1); non-trivial = degree >= 3 or both inputs non-zero; distinct by (type, input vector) digest (exhaustive slices contribute at most 512 digests each, their true size is in counters.exhaustive_inputs)".into();
    run.assumptions = vec![
        "working range for phi/tanh accuracy: max|x| <= 30 (f64) / 12 (f32); beyond it both rules saturate by design and only structure is checked".into(),
        "tolerances: phi/tanh (32d+160)*u*e^|e| + 64u(1+|e|); A-Min*/min* float 1e-9 (f64) / 1e-4 (f32) relative; 8-bit 0.5(d-2) / 1.0(d-1) units".into(),
    ];
    // oracle self-check (monitor honesty): two independent formulations of box-plus agree
    run.sub("oracle-selfcheck", 2000, |_l, _i, rng| {
        let d = rng.range(2, 12);
        let v: Vec<f64> = (0..d).map(|_| rng.uniform(-20.0, 20.0)).collect();
        for j in 0..d {
            let a = boxplus_excl(&v, j);
            let b = boxplus_excl_logtanh(&v, j);
            if (a - b).abs() > 1e-6 * (1.0 + a.abs()) * a.abs().exp().min(1e6) {
                panic!("box-plus oracles disagree: {} vs {} on {:?}", a, b, v);
            }
        }
        // and the 8-bit correction table oracle is what the documentation says
        assert_eq!(corr8(0), 6);
        assert_eq!(corr8(200), 0);
    });
    let per_type = if cfg!(miri) { 1 } else { run.tier.n(4000, 150_000) };
    let calls = if cfg!(miri) { 6 } else { 40 };
    run.sub("random", per_type * 24, move |l, idx, rng| {
        let name = ARITH_NAMES[(idx % 24) as usize];
        // a third of the objects are made by Default::default() instead of new(): the same arithmetic either way
        let dflt = (idx / 24) % 3 == 2;
        if dflt {
            l.count("objects_built_by_default");
        }
        with_arith!(name, A, { run_generic::<A>(l, name, &|| if dflt { <A as Default>::default() } else { <A>::new() }, rng, calls) }, { panic!("unknown arithmetic") });
    });
    if !cfg!(miri) {
        let names8: Vec<&'static str> = ARITH_NAMES.iter().cloned().filter(|n| is_i8(n)).collect();
        let n8 = names8.len() as u64;
        let names8b = names8.clone();
        run.sub("exhaustive-8bit-degree2", n8 * 255, move |l, idx, _rng| {
            let name = names8b[(idx % n8) as usize];
            let first = (idx / n8) as i64 - 127;
            with_arith!(name, A, { run_exhaustive8::<A>(l, name, &|| <A>::new(), 2, first) }, { panic!() });
        });
        if run.tier == crate::ctx::Tier::Thorough {
            run.sub("exhaustive-8bit-degree3", n8 * 255, move |l, idx, _rng| {
                let name = names8[(idx % n8) as usize];
                let first = (idx / n8) as i64 - 127;
                with_arith!(name, A, { run_exhaustive8::<A>(l, name, &|| <A>::new(), 3, first) }, { panic!() });
            });
        } else {
            // quick: a sampled slice of the degree-3 space
            run.sub("sampled-8bit-degree3", n8 * 12, move |l, idx, rng| {
                let name = names8[(idx % n8) as usize];
                let first = rng.irange(-127, 127);
                with_arith!(name, A, { run_exhaustive8::<A>(l, name, &|| <A>::new(), 3, first) }, { panic!() });
            });
        }
    }
    let _ = is_minstarapprox;
}
