#!/bin/bash
# tools/confirm_mutant.sh <ID> <mN>
# Independently confirms a seeded change produced by a sub-agent in its scratch
# worktree /tmp/wt-<ID>: (1) patch applies, (2) existing tests pass with it,
# (3) demo fails with it, (4) demo passes without it. On success the change is
# kept as /verif/seeded/<ID>-<mN>/.
set -u
ID=$1; M=$2
WT=/tmp/${WTP:-wt}-$ID; OUT=$WT/_out/$M; TAG=${TAG:-}
export CARGO_TARGET_DIR=$WT/target CARGO_NET_OFFLINE=true
cd "$WT" || exit 2
git checkout -q -- . ; rm -f examples/demo_lv.rs tests/demo_lv.rs
res() { echo "$1"; }
git apply --check "$OUT/patch.diff" || { echo "CONFIRM $ID $M: patch does not apply"; exit 1; }
git apply "$OUT/patch.diff"
T=$(cargo test --workspace --offline 2>&1 | grep -E "^test result" | tr '\n' ' ')
echo "tests with patch: $T"
echo "$T" | grep -q "42 passed; 0 failed" || { echo "CONFIRM $ID $M: tests do not pass with patch"; git checkout -q -- .; exit 1; }
echo "$T" | grep -q "9 passed; 0 failed" || { echo "CONFIRM $ID $M: doc tests do not pass with patch"; git checkout -q -- .; exit 1; }
run_demo() {
  if [ -f "$OUT/demo.rs" ] && grep -q "#\[test\]" "$OUT/demo.rs" && ! grep -q "^fn main" "$OUT/demo.rs"; then
    mkdir -p tests; cp "$OUT/demo.rs" tests/demo_lv.rs
    timeout 900 cargo test --offline --test demo_lv >/tmp/demo-$ID-$M.log 2>&1; rc=$?
    rm -f tests/demo_lv.rs; rmdir tests 2>/dev/null
  elif [ -f "$OUT/demo.rs" ]; then
    cp "$OUT/demo.rs" examples/demo_lv.rs
    # data files the demo may need
    for f in "$OUT"/*; do case "$f" in *patch.diff|*demo.rs|*meta.json) ;; *) cp -r "$f" examples/ 2>/dev/null;; esac; done
    timeout 900 cargo run --offline ${DEMO_PROFILE:-} --example demo_lv >/tmp/demo-$ID-$M.log 2>&1; rc=$?
    rm -f examples/demo_lv.rs
  elif [ -f "$OUT/demo.sh" ]; then
    (cd "$WT" && cargo build --offline >/dev/null 2>&1 && timeout 900 bash "$OUT/demo.sh" >/tmp/demo-$ID-$M.log 2>&1); rc=$?
  else
    echo "no demo"; rc=99
  fi
  return $rc
}
run_demo; RC_WITH=$?
git checkout -q -- .
run_demo; RC_WITHOUT=$?
echo "demo rc with patch: $RC_WITH   without: $RC_WITHOUT"
if [ $RC_WITH -ne 0 ] && [ $RC_WITHOUT -eq 0 ]; then
  D=/verif/seeded/$ID-$TAG$M; mkdir -p "$D"
  cp "$OUT/patch.diff" "$D/"; cp "$OUT"/demo.* "$D/" 2>/dev/null
  python3 - "$OUT/meta.json" "$D/meta.json" "$ID" "$T" "$RC_WITH" "$RC_WITHOUT" <<'PY'
import json,sys
src,dst,pid,t,a,b=sys.argv[1:]
try: m=json.load(open(src))
except Exception as e: m={"meta_parse_error":str(e)}
m["property"]=pid
m["confirmed_by_main_session"]={"scratch_worktree":"/tmp/wt*-"+pid,"existing_tests_with_patch":t.strip(),"demo_exit_with_patch":int(a),"demo_exit_without_patch":int(b),
  "commands":["git apply patch.diff","cargo test --workspace --offline","cargo run --offline [--release when the change is release-only] --example demo_lv (demo.rs copied to examples/)","git checkout -- .","cargo run --offline --example demo_lv"]}
json.dump(m,open(dst,"w"),indent=1)
PY
  echo "CONFIRM $ID $M: OK kept in $D"
else
  echo "CONFIRM $ID $M: demo behaviour not as required"; exit 1
fi
