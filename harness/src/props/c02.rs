//! C02 – the systematic encoder always emits a codeword that begins with the message.

use crate::ctx::{Local, Run, guard, panic_class};
use crate::genm::Mat;
use crate::oracle::{is_codeword, tail_invertible};
use crate::rng::{Dig, Rng};
use ldpc_toolbox::encoder::Encoder;
use ldpc_toolbox::gf2::GF2;
use ndarray::Array1;
use num_traits::{One, Zero};

pub fn to_gf2(bits: &[u8]) -> Array1<GF2> {
    Array1::from_iter(bits.iter().map(|&b| if b == 1 { GF2::one() } else { GF2::zero() }))
}
pub fn from_gf2(a: &Array1<GF2>) -> Vec<u8> {
    a.iter().map(|x| if x.is_one() { 1 } else { 0 }).collect()
}

fn staircase_tail(r: usize, k: usize, e: &mut Vec<(usize, usize)>) {
    for j in 0..r {
        e.push((j, k + j));
        if j > 0 {
            e.push((j, k + j - 1));
        }
    }
}

fn gen_h(rng: &mut Rng, idx: u64) -> Mat {
    let big = idx % 32 == 31;
    let huge = idx % 4096 == 4095 && !cfg!(miri);
    let r = if huge { rng.range(100, 200) } else if big { rng.range(20, 40) } else { rng.range(1, 10) };
    let n = if rng.chance(0.08) { r } else { r + if huge { rng.range(0, 200) } else if big { rng.range(0, 40) } else { rng.range(0, 12) } };
    let k = n - r;
    let mut e: Vec<(usize, usize)> = Vec::new();
    let info = |rng: &mut Rng, e: &mut Vec<(usize, usize)>, p: f64| {
        for j in 0..r {
            for c in 0..k {
                if rng.chance(p) {
                    e.push((j, c));
                }
            }
        }
    };
    let fam: &'static str;
    match rng.below(12) {
        0 => {
            fam = "staircase";
            let p = *rng.pick(&[0.1, 0.3, 0.6]);
            info(rng, &mut e, p);
            staircase_tail(r, k, &mut e);
        }
        1 => {
            fam = "staircase-extra-one";
            info(rng, &mut e, 0.3);
            staircase_tail(r, k, &mut e);
            e.push((rng.below(r), k + rng.below(r)));
        }
        2 => {
            fam = "staircase-missing-one";
            info(rng, &mut e, 0.3);
            staircase_tail(r, k, &mut e);
            let tail: Vec<usize> = (0..e.len()).filter(|&i| e[i].1 >= k).collect();
            let i = *rng.pick(&tail);
            e.remove(i);
        }
        3 => {
            fam = "staircase-one-moved";
            info(rng, &mut e, 0.3);
            staircase_tail(r, k, &mut e);
            let tail: Vec<usize> = (0..e.len()).filter(|&i| e[i].1 >= k).collect();
            let i = *rng.pick(&tail);
            e.remove(i);
            // put it somewhere else in the tail, often right next to the band
            for _ in 0..10 {
                let j = rng.below(r);
                let c = if rng.coin() { (j + 1).min(r - 1) } else { rng.below(r) };
                if !e.contains(&(j, k + c)) {
                    e.push((j, k + c));
                    break;
                }
            }
        }
        4 => {
            fam = "tridiagonal-band-2r-1-ones";
            // exactly 2r-1 ones inside |row-col| <= 1 that is not the staircase
            info(rng, &mut e, 0.3);
            let mut band: Vec<(usize, usize)> = Vec::new();
            for j in 0..r {
                for c in j.saturating_sub(1)..=(j + 1).min(r - 1) {
                    band.push((j, c));
                }
            }
            rng.shuffle(&mut band);
            band.truncate((2 * r - 1).min(band.len()));
            for (j, c) in band {
                e.push((j, k + c));
            }
        }
        5 => {
            fam = "upper-bidiagonal";
            info(rng, &mut e, 0.3);
            for j in 0..r {
                e.push((j, k + j));
                if j + 1 < r {
                    e.push((j, k + j + 1));
                }
            }
        }
        6 => {
            fam = "dense-random";
            let p = *rng.pick(&[0.0, 0.15, 0.5, 0.85, 1.0]);
            for j in 0..r {
                for c in 0..n {
                    if rng.chance(p) {
                        e.push((j, c));
                    }
                }
            }
        }
        7 => {
            fam = "sparse-random";
            for c in 0..n {
                for j in { let kk = rng.range(1, 3.min(r)); rng.choose(r, kk) } {
                    e.push((j, c));
                }
            }
        }
        8 => {
            fam = "invertible-dense-tail";
            // tail = product of random elementary operations on identity
            info(rng, &mut e, 0.4);
            let mut t = vec![vec![0u8; r]; r];
            for j in 0..r {
                t[j][j] = 1;
            }
            for _ in 0..(3 * r) {
                let a = rng.below(r);
                let b = rng.below(r);
                if a != b {
                    for c in 0..r {
                        t[a][c] ^= t[b][c];
                    }
                }
            }
            for j in 0..r {
                for c in 0..r {
                    if t[j][c] == 1 {
                        e.push((j, k + c));
                    }
                }
            }
        }
        9 => {
            fam = "singular-last-column-only";
            // first r-1 tail columns independent, last column a combination of them (or zero)
            info(rng, &mut e, 0.4);
            let mut t = vec![vec![0u8; r]; r];
            for j in 0..r {
                t[j][j] = 1;
            }
            for _ in 0..(2 * r) {
                let a = rng.below(r);
                let b = rng.below(r);
                if a != b {
                    for c in 0..r {
                        t[a][c] ^= t[b][c];
                    }
                }
            }
            // overwrite last column by a combination of the others
            let comb: Vec<usize> = (0..r.saturating_sub(1)).filter(|_| rng.coin()).collect();
            for j in 0..r {
                t[j][r - 1] = comb.iter().fold(0, |a, &c| a ^ t[j][c]);
            }
            for j in 0..r {
                for c in 0..r {
                    if t[j][c] == 1 {
                        e.push((j, k + c));
                    }
                }
            }
        }
        10 => {
            fam = "singular-tail-duplicate-or-zero";
            info(rng, &mut e, 0.4);
            for j in 0..r {
                for c in 0..r {
                    if rng.coin() {
                        e.push((j, k + c));
                    }
                }
            }
            if r >= 2 && rng.coin() {
                // duplicate column
                let a = rng.below(r);
                let b = (a + 1 + rng.below(r - 1)) % r;
                e.retain(|&(_, c)| c != k + b);
                let col: Vec<usize> = e.iter().filter(|&&(_, c)| c == k + a).map(|&(j, _)| j).collect();
                for j in col {
                    e.push((j, k + b));
                }
            } else {
                let z = rng.below(r);
                if rng.coin() {
                    e.retain(|&(_, c)| c != k + z); // zero column
                } else {
                    e.retain(|&(j, _)| j != z); // zero row (dependent rows)
                }
            }
        }
        _ => {
            fam = "staircase-with-empty-info";
            staircase_tail(r, k, &mut e);
        }
    }
    Mat::new(r, n, e, fam)
}

pub fn check_h(l: &mut Local, m: &Mat, rng: &mut Rng) {
    let (r, n) = (m.rows, m.cols);
    let k = n - r;
    let h = if rng.coin() { m.to_sparse() } else { m.to_sparse_shuffled(rng) };
    let inv = tail_invertible(r, n, &m.e);
    l.eval();
    l.count(m.family);
    let enc = match guard(|| Encoder::from_h(&h)) {
        Err(p) => {
            l.violation(
                format!("Encoder::from_h panicked ({}): {}", m.family, panic_class(&p)),
                m.json().set("panic", p),
            );
            return;
        }
        Ok(Err(_)) => {
            l.count("from_h_err");
            if inv {
                l.violation(
                    format!("Encoder::from_h rejects an invertible tail ({})", m.family),
                    m.json(),
                );
            }
            return;
        }
        Ok(Ok(enc)) => {
            if !inv {
                l.violation(
                    format!("Encoder::from_h accepts a singular tail ({})", m.family),
                    m.json().set("encoder", format!("{:?}", enc).chars().take(60).collect::<String>()),
                );
                return;
            }
            enc
        }
    };
    let dbg = format!("{:?}", enc);
    let kind = if dbg.contains("Staircase") {
        "encoder_staircase"
    } else if dbg.contains("DenseGenerator") {
        "encoder_dense"
    } else {
        "encoder_unknown"
    };
    l.count(kind);
    // messages: zero, all units (k <= 24), random ones
    let mut msgs: Vec<Vec<u8>> = vec![vec![0; k]];
    for i in 0..k.min(24) {
        let mut u = vec![0; k];
        u[i] = 1;
        msgs.push(u);
    }
    for _ in 0..8 {
        msgs.push((0..k).map(|_| rng.coin() as u8).collect());
    }
    msgs.push(vec![1; k]);
    let mut words: Vec<Vec<u8>> = Vec::new();
    let mut nonzero = false;
    for msg in &msgs {
        l.eval();
        let out = match guard(|| enc.encode(&to_gf2(msg))) {
            Err(p) => {
                l.violation(
                    format!("Encoder::encode panicked ({}): {}", kind, panic_class(&p)),
                    m.json().set("message", msg.clone()).set("panic", p),
                );
                return;
            }
            Ok(o) => from_gf2(&o),
        };
        let det = |what: &str| m.json().set("message", msg.clone()).set("codeword", out.clone()).set("what", what).set("encoder", kind);
        if out.len() != n {
            l.violation(format!("encode output has wrong length ({})", kind), det("length"));
            return;
        }
        if out[..k] != msg[..] {
            l.violation(format!("encode output does not start with the message ({})", kind), det("prefix"));
            return;
        }
        if !is_codeword(r, &m.e, &out) {
            l.violation(format!("encode output violates a parity check ({}, {})", kind, m.family), det("syndrome"));
            return;
        }
        if msg.contains(&1) {
            nonzero = true;
        }
        words.push(out);
    }
    // the generic encode() accepts any 1-D view: the same message as a reversed view and as a stride-2 view
    // must give the same codeword as the owned array
    {
        use ndarray::s;
        let i = rng.below(msgs.len());
        let msg = &msgs[i];
        let rev: Vec<u8> = msg.iter().rev().cloned().collect();
        let rev_arr = to_gf2(&rev);
        let mut wide = Vec::with_capacity(2 * k);
        for &b in msg {
            wide.push(b);
            wide.push(1 - b);
        }
        let wide_arr = to_gf2(&wide);
        for (lname, res) in [
            ("reversed view", guard(|| enc.encode(&rev_arr.slice(s![..;-1])))),
            ("stride-2 view", guard(|| enc.encode(&wide_arr.slice(s![..;2])))),
        ] {
            l.eval();
            match res {
                Ok(o) => {
                    if from_gf2(&o) != words[i] {
                        l.violation(
                            format!("encode of a {} differs from encode of the same message as an owned array ({})", lname, kind),
                            m.json().set("message", msg.clone()).set("codeword_from_view", from_gf2(&o)).set("codeword_from_owned", words[i].clone()),
                        );
                        return;
                    }
                }
                Err(p) => {
                    l.violation(format!("encode of a {} panicked ({}): {}", lname, kind, panic_class(&p)), m.json().set("message", msg.clone()).set("panic", p));
                    return;
                }
            }
        }
    }
    // linearity on pairs
    for _ in 0..4 {
        let a = rng.below(msgs.len());
        let b = rng.below(msgs.len());
        let s: Vec<u8> = msgs[a].iter().zip(&msgs[b]).map(|(x, y)| x ^ y).collect();
        l.eval();
        if let Ok(o) = guard(|| enc.encode(&to_gf2(&s))) {
            let o = from_gf2(&o);
            let want: Vec<u8> = words[a].iter().zip(&words[b]).map(|(x, y)| x ^ y).collect();
            if o != want {
                l.violation(
                    format!("encoding is not linear ({})", kind),
                    m.json().set("a", msgs[a].clone()).set("b", msgs[b].clone()),
                );
                return;
            }
        }
    }
    if nonzero {
        let mut d = Dig::new();
        d.u(r as u64).u(n as u64).entries(&m.e);
        l.nt(d.get());
    }
    l.sample(|| m.json().set("encoder", kind).set("messages_checked", msgs.len()));
}

pub fn run(run: &mut Run) {
    run.rule = "H with 1<=r<=40, r<=n<=80 (every 4096th case 100<=r<=200, n<=400; and 2..6 x (65 534 .. 136 000) staircase / triangular-tail matrices: index widths; and 520..640 x 1040..1340 matrices with a dense generator of more than 2^18 elements) from 12 families (exact staircase, staircase +/- one entry or one entry moved, tridiagonal band with exactly 2r-1 ones, upper bidiagonal, dense random at 5 densities, sparse, invertible dense tail, singular tail where only the LAST column is dependent, duplicate/zero column or zero row, square k=0); oracle = bit-packed rank of the last r columns and own syndrome; messages = 0, all units, 8 random, all-ones (one of them also as a reversed and as a stride-2 array view); linearity on 4 pairs; non-trivial = encoder built and >= 1 non-zero message encoded, distinct by matrix digest".into();
    run.assumptions = vec!["which encoder type was used is read from the Debug output of Encoder (corroboration only)".into()];
    let n = if cfg!(miri) { 40 } else { run.tier.n(1_500_000, 60_000_000) };
    run.sub("matrices", n, |l, idx, rng| {
        let m = gen_h(rng, idx);
        check_h(l, &m, rng);
    });
    // index widths: more than 2^16 (and 2^17) message columns, staircase and dense tails; messages with ones on both
    // sides of the boundaries
    if !cfg!(miri) {
        run.sub("wide-codes", run.tier.n(8, 80), |l, idx, rng| {
            // every fourth case: a large DENSE generator instead (more than 2^18 elements), i.e. r and k of a few hundred
            let large_dense = idx % 4 == 3;
            let r = if large_dense { rng.range(520, 640) } else { rng.range(2, 6) };
            let k = if large_dense {
                rng.range(520, 700)
            } else {
                match idx % 3 {
                    0 => 65_536 + rng.range(1, 5000),
                    1 => 131_072 + rng.range(1, 300),
                    _ => 65_536 - rng.range(0, 3),
                }
            };
            let mut e: Vec<(usize, usize)> = Vec::new();
            // every row checks a few hundred message bits spread over the whole width, always some beyond 2^16
            for j in 0..r {
                for c in rng.choose(k, 300.min(k)) {
                    e.push((j, c));
                }
                for c in [0usize, 1, 65_535, 65_536, 65_537, k - 1] {
                    if c < k && rng.coin() && !e.contains(&(j, c)) {
                        e.push((j, c));
                    }
                }
            }
            let staircase = idx % 2 == 0 && !large_dense;
            if staircase {
                staircase_tail(r, k, &mut e);
            } else {
                // lower triangular dense tail (invertible)
                for j in 0..r {
                    e.push((j, k + j));
                    for c in 0..j {
                        if rng.coin() {
                            e.push((j, k + c));
                        }
                    }
                }
            }
            let m = Mat::new(r, k + r, e, if large_dense { "large-dense-generator" } else if staircase { "wide-staircase" } else { "wide-dense-tail" });
            let h = m.to_sparse();
            l.eval();
            let enc = match guard(|| Encoder::from_h(&h)) {
                Ok(Ok(enc)) => enc,
                Ok(Err(e)) => {
                    l.violation(format!("Encoder::from_h rejects an invertible tail ({})", m.family), crate::json::J::obj().set("rows", r).set("message_bits", k).set("error", format!("{:?}", e)));
                    return;
                }
                Err(p) => {
                    l.violation(format!("Encoder::from_h panicked ({}): {}", m.family, panic_class(&p)), crate::json::J::obj().set("rows", r).set("message_bits", k));
                    return;
                }
            };
            for t in 0..5 {
                let mut msg = vec![0u8; k];
                let ones: Vec<usize> = match t {
                    // all ones: every parity row sums a few hundred ones
                    4 => (0..k).collect(),
                    0 => vec![k - 1],
                    1 => vec![65_536.min(k - 1)],
                    2 => (0..k).filter(|_| rng.chance(0.01)).collect(),
                    _ => m.e.iter().filter(|x| x.1 < k && x.1 >= 65_000.min(k - 1)).map(|x| x.1).take(5).collect(),
                };
                for &i in &ones {
                    msg[i] = 1;
                }
                l.eval();
                match guard(|| enc.encode(&to_gf2(&msg))) {
                    Err(p) => {
                        l.violation(format!("Encoder::encode panicked ({}): {}", m.family, panic_class(&p)), crate::json::J::obj().set("message_bits", k));
                        return;
                    }
                    Ok(cw) => {
                        let cw = from_gf2(&cw);
                        let what = if cw.len() != k + r {
                            Some("wrong length")
                        } else if cw[..k] != msg[..] {
                            Some("does not begin with the message")
                        } else if !is_codeword(m.rows, &m.e, &cw) {
                            Some("violates a parity check")
                        } else {
                            None
                        };
                        if let Some(w) = what {
                            l.violation(
                                format!("encoder output {} ({})", w, m.family),
                                crate::json::J::obj().set("rows", r).set("message_bits", k).set("message_ones_at", ones.iter().take(20).map(|&x| x as u64).collect::<Vec<_>>()).set("parity_bits", cw[k.min(cw.len())..].to_vec()),
                            );
                            return;
                        }
                    }
                }
            }
            let mut d = Dig::new();
            d.s("wide").u(k as u64).u(r as u64).entries(&m.e[..50]);
            l.nt(d.get());
        });
    }
    run.sub_seq("directed", 1, |l, _i, rng| {
        // smallest cases and the unit-test style matrices
        for (r, n, e, f) in [
            (1usize, 1usize, vec![(0usize, 0usize)], "1x1-one"),
            (1, 1, vec![], "1x1-zero"),
            (1, 2, vec![(0, 0)], "1x2-zero-tail"),
            (1, 2, vec![(0, 0), (0, 1)], "1x2"),
            (2, 2, vec![(0, 0), (1, 0), (1, 1)], "2x2-staircase"),
            (2, 2, vec![(0, 0), (0, 1), (1, 1)], "2x2-upper"),
            (3, 6, vec![(0, 0), (0, 2), (0, 3), (0, 5), (1, 1), (1, 2), (1, 4), (1, 5), (2, 0), (2, 1), (2, 3), (2, 4)], "last-col-dependent"),
        ] {
            check_h(l, &Mat::new(r, n, e, f), rng);
        }
    });
}
