//! C17 – sparse-matrix editing behaves like a set of (row, column) positions.
//!
//! Reference-model monitor: a BTreeSet<(r,c)> is driven by the same operation
//! history; after every operation the whole query API is compared.

use crate::ctx::{Run, guard, panic_class};
use crate::json::J;
use crate::rng::{Dig, Rng};
use ldpc_toolbox::sparse::SparseMatrix;
use std::collections::BTreeSet;

type Model = BTreeSet<(usize, usize)>;

#[derive(Clone, Debug)]
enum Op {
    Insert(usize, usize),
    Remove(usize, usize),
    Toggle(usize, usize),
    InsertRow(usize, Vec<usize>),
    InsertCol(usize, Vec<usize>),
    ClearRow(usize),
    ClearCol(usize),
    SetRow(usize, Vec<usize>),
    SetCol(usize, Vec<usize>),
}

fn op_json(op: &Op) -> J {
    J::S(format!("{:?}", op))
}

/// index in 0..n; for long dimensions the indices cluster on a few residues modulo 64 (word-size boundaries)
fn pick_index(rng: &mut Rng, n: usize) -> usize {
    if n <= 64 {
        return rng.below(n);
    }
    if n > 65_536 && rng.chance(0.6) {
        // around the 16-bit boundary, and pairs that are congruent modulo 2^16
        let c = [0usize, 1, 65_535, 65_536, 65_537, n - 1, n - 65_536 - 1];
        return *rng.pick(&c) % n;
    }
    let base = [0usize, 1, 5, 63][rng.below(4)];
    let cands: Vec<usize> = (0..4).map(|k| base + 64 * k).filter(|&x| x < n).collect();
    if cands.is_empty() || rng.chance(0.15) { rng.below(n) } else { *rng.pick(&cands) }
}

fn gen_op(rng: &mut Rng, rows: usize, cols: usize) -> Op {
    let r = pick_index(rng, rows);
    let c = pick_index(rng, cols);
    let list = |rng: &mut Rng, n: usize| -> Vec<usize> {
        let k = rng.range(0, n.min(8) + 2);
        (0..k).map(|_| pick_index(rng, n)).collect() // repeats on purpose
    };
    match rng.below(12) {
        0..=2 => Op::Insert(r, c),
        3 | 4 => Op::Remove(r, c),
        5 | 6 => Op::Toggle(r, c),
        7 => Op::InsertRow(r, list(rng, cols)),
        8 => Op::InsertCol(c, list(rng, rows)),
        9 => {
            if rng.coin() {
                Op::ClearRow(r)
            } else {
                Op::ClearCol(c)
            }
        }
        10 => Op::SetRow(r, list(rng, cols)),
        _ => Op::SetCol(c, list(rng, rows)),
    }
}

fn apply_model(m: &mut Model, op: &Op) {
    match op {
        Op::Insert(r, c) => {
            m.insert((*r, *c));
        }
        Op::Remove(r, c) => {
            m.remove(&(*r, *c));
        }
        Op::Toggle(r, c) => {
            if !m.remove(&(*r, *c)) {
                m.insert((*r, *c));
            }
        }
        Op::InsertRow(r, cs) => {
            for &c in cs {
                m.insert((*r, c));
            }
        }
        Op::InsertCol(c, rs) => {
            for &r in rs {
                m.insert((r, *c));
            }
        }
        Op::ClearRow(r) => m.retain(|&(rr, _)| rr != *r),
        Op::ClearCol(c) => m.retain(|&(_, cc)| cc != *c),
        Op::SetRow(r, cs) => {
            m.retain(|&(rr, _)| rr != *r);
            for &c in cs {
                m.insert((*r, c));
            }
        }
        Op::SetCol(c, rs) => {
            m.retain(|&(_, cc)| cc != *c);
            for &r in rs {
                m.insert((r, *c));
            }
        }
    }
}

// every mutator result is discarded, so the harness still builds if a mutator starts returning a value.
// Bulk operations receive their indices through different kinds of iterators (the signatures accept any iterator):
// a slice iterator (exact size hint), a filtered one (lower size bound 0), a chained one and an owning one.
fn apply_real(h: &mut SparseMatrix, op: &Op) {
    fn kind(v: &[usize], salt: usize) -> usize {
        (v.len() * 7 + v.first().copied().unwrap_or(3) + salt) % 4
    }
    macro_rules! bulk {
        ($m:ident, $i:expr, $v:expr) => {{
            let v: &Vec<usize> = $v;
            match kind(v, *$i) {
                0 => {
                    let _ = h.$m(*$i, v.iter());
                }
                1 => {
                    let _ = h.$m(*$i, v.iter().filter(|_| true));
                }
                2 => {
                    let (a, b) = v.split_at(v.len() / 2);
                    let _ = h.$m(*$i, a.iter().chain(b.iter()));
                }
                _ => {
                    let _ = h.$m(*$i, v.clone().into_iter());
                }
            }
        }};
    }
    match op {
        Op::Insert(r, c) => {
            let _ = h.insert(*r, *c);
        }
        Op::Remove(r, c) => {
            let _ = h.remove(*r, *c);
        }
        Op::Toggle(r, c) => {
            let _ = h.toggle(*r, *c);
        }
        Op::InsertRow(r, cs) => bulk!(insert_row, r, cs),
        Op::InsertCol(c, rs) => bulk!(insert_col, c, rs),
        Op::ClearRow(r) => {
            let _ = h.clear_row(*r);
        }
        Op::ClearCol(c) => {
            let _ = h.clear_col(*c);
        }
        Op::SetRow(r, cs) => bulk!(set_row, r, cs),
        Op::SetCol(c, rs) => bulk!(set_col, c, rs),
    }
}

/// Compare the full query API with the model; returns a description of the
/// first disagreement.
fn compare(h: &SparseMatrix, m: &Model, rows: usize, cols: usize) -> Option<String> {
    if h.num_rows() != rows || h.num_cols() != cols {
        return Some(format!("dimensions changed to {}x{}", h.num_rows(), h.num_cols()));
    }
    for r in 0..rows {
        let want: Vec<usize> = m.iter().filter(|&&(rr, _)| rr == r).map(|&(_, c)| c).collect();
        let mut got: Vec<usize> = h.iter_row(r).cloned().collect();
        if h.row_weight(r) != want.len() {
            return Some(format!("row_weight({}) = {} expected {}", r, h.row_weight(r), want.len()));
        }
        got.sort_unstable();
        if got.windows(2).any(|w| w[0] == w[1]) {
            return Some(format!("iter_row({}) has duplicates: {:?}", r, got));
        }
        if got != want {
            return Some(format!("iter_row({}) = {:?} expected {:?}", r, got, want));
        }
    }
    for c in 0..cols {
        let want: Vec<usize> = m.iter().filter(|&&(_, cc)| cc == c).map(|&(r, _)| r).collect();
        let mut got: Vec<usize> = h.iter_col(c).cloned().collect();
        if h.col_weight(c) != want.len() {
            return Some(format!("col_weight({}) = {} expected {}", c, h.col_weight(c), want.len()));
        }
        got.sort_unstable();
        if got.windows(2).any(|w| w[0] == w[1]) {
            return Some(format!("iter_col({}) has duplicates: {:?}", c, got));
        }
        if got != want {
            return Some(format!("iter_col({}) = {:?} expected {:?}", c, got, want));
        }
    }
    for r in 0..rows {
        for c in 0..cols {
            if h.contains(r, c) != m.contains(&(r, c)) {
                return Some(format!("contains({},{}) = {} expected {}", r, c, h.contains(r, c), m.contains(&(r, c))));
            }
        }
    }
    let mut all: Vec<(usize, usize)> = h.iter_all().collect();
    all.sort_unstable();
    if all.windows(2).any(|w| w[0] == w[1]) {
        return Some(format!("iter_all has duplicates: {:?}", all));
    }
    let want: Vec<(usize, usize)> = m.iter().cloned().collect();
    if all != want {
        return Some(format!("iter_all = {:?} expected {:?}", all, want));
    }
    None
}

fn op_kind(op: &Op) -> &'static str {
    match op {
        Op::Insert(..) => "insert",
        Op::Remove(..) => "remove",
        Op::Toggle(..) => "toggle",
        Op::InsertRow(..) => "insert_row",
        Op::InsertCol(..) => "insert_col",
        Op::ClearRow(..) => "clear_row",
        Op::ClearCol(..) => "clear_col",
        Op::SetRow(..) => "set_row",
        Op::SetCol(..) => "set_col",
    }
}

pub fn run(run: &mut Run) {
    run.rule = "random operation histories (length <= 200, all nine mutators incl. bulk inserts with repeated indices, handed over through slice, filtered, chained and owning iterators) on tiny shapes 1..6 x 1..6 (every 16th up to 12x12, every 256th 20..48 x 20..48, every 32nd tall or wide with one dimension 65..200 and indices clustered on residues modulo 64, every 4096th with one dimension beyond 2^16 and indices around that boundary); after EVERY operation the whole query API is compared with a BTreeSet model; a history is non-trivial if it executes at least one toggle-off, remove of a present entry or clear/set on a non-empty line; distinct = digest of (shape, operation list)".into();
    run.assumptions = vec![
        "iterator contents are compared as sets (the statement does not fix list order)".into(),
        "out-of-range indices are outside the domain (they index out of bounds by contract)".into(),
    ];
    let miri = run.leg.as_deref() == Some("miri");
    let n = if miri { 24 } else { run.tier.n(120_000, 4_000_000) };
    run.sub("history", n, |l, idx, rng| {
        let big = idx % 16 == 15;
        let huge = idx % 256 == 255 && !cfg!(miri);
        let long = idx % 32 == 7 && !cfg!(miri);
        let vlong = idx % 4096 == 1023 && !cfg!(miri);
        let (rows, cols) = if vlong {
            // index widths: one dimension beyond 2^16
            let a = 65_537 + rng.below(3000);
            let b = rng.range(1, 3);
            if rng.coin() { (a, b) } else { (b, a) }
        } else if long {
            // one long dimension (beyond 64 and beyond 128), the other tiny: tall and wide
            let a = rng.range(65, 200);
            let b = rng.range(1, 4);
            if rng.coin() { (a, b) } else { (b, a) }
        } else if huge {
            (rng.range(20, 48), rng.range(20, 48))
        } else if big {
            (rng.range(1, 12), rng.range(1, 12))
        } else {
            (rng.range(1, 6), rng.range(1, 6))
        };
        let len = if cfg!(miri) { rng.range(1, 25) } else if vlong { rng.range(5, 30) } else { rng.range(1, 200) };
        let mut h = SparseMatrix::new(rows, cols);
        let mut m = Model::new();
        let mut ops: Vec<Op> = Vec::new();
        let mut d = Dig::new();
        d.u(rows as u64).u(cols as u64);
        let mut nontrivial = false;
        for step in 0..len {
            let mut op = gen_op(rng, rows, cols);
            // state-aware lists: a set_row/set_col whose list names only entries that are already there, drawn WITH
            // replacement and exactly as long as the line's current weight (the result is a strict subset unless no
            // index repeats), or the line's exact contents in another order
            if !m.is_empty() && rng.chance(0.08) {
                let k = rng.below(m.len());
                let (r0, c0) = *m.iter().nth(k).unwrap();
                if rng.coin() {
                    let cur: Vec<usize> = m.iter().filter(|x| x.0 == r0).map(|x| x.1).collect();
                    let mut list: Vec<usize> = (0..cur.len()).map(|_| *rng.pick(&cur)).collect();
                    if rng.chance(0.3) {
                        list = cur.clone();
                        rng.shuffle(&mut list);
                    }
                    op = Op::SetRow(r0, list);
                } else {
                    let cur: Vec<usize> = m.iter().filter(|x| x.1 == c0).map(|x| x.0).collect();
                    let mut list: Vec<usize> = (0..cur.len()).map(|_| *rng.pick(&cur)).collect();
                    if rng.chance(0.3) {
                        list = cur.clone();
                        rng.shuffle(&mut list);
                    }
                    op = Op::SetCol(c0, list);
                }
            }
            d.s(&format!("{:?}", op));
            // classification before applying
            let noop_expected = match &op {
                Op::Insert(r, c) => m.contains(&(*r, *c)),
                Op::Remove(r, c) => !m.contains(&(*r, *c)),
                Op::InsertRow(r, cs) => cs.iter().all(|c| m.contains(&(*r, *c))),
                Op::InsertCol(c, rs) => rs.iter().all(|r| m.contains(&(*r, *c))),
                _ => false,
            };
            match &op {
                Op::Toggle(r, c) | Op::Remove(r, c) if m.contains(&(*r, *c)) => nontrivial = true,
                Op::ClearRow(r) | Op::SetRow(r, _) if m.iter().any(|&(rr, _)| rr == *r) => nontrivial = true,
                Op::ClearCol(c) | Op::SetCol(c, _) if m.iter().any(|&(_, cc)| cc == *c) => nontrivial = true,
                _ => {}
            }
            let before = h.clone();
            ops.push(op.clone());
            l.eval();
            l.count(op_kind(&op));
            let res = guard(|| apply_real(&mut h, &op));
            apply_model(&mut m, &op);
            let detail = |what: String, ops: &Vec<Op>| {
                J::obj()
                    .set("rows", rows)
                    .set("cols", cols)
                    .set("step", step)
                    .set("ops", J::A(ops.iter().map(op_json).collect()))
                    .set("what", what)
            };
            if let Err(p) = res {
                l.violation(
                    format!("{} panicked on in-range indices: {}", op_kind(&op), panic_class(&p)),
                    detail(p, &ops),
                );
                return;
            }
            if noop_expected && h != before {
                l.violation(
                    format!("{} of an already {} entry changed the matrix (== clone fails)", op_kind(&op), if matches!(op, Op::Remove(..)) { "absent" } else { "present" }),
                    detail("matrix != clone taken before the call".into(), &ops),
                );
                return;
            }
            if let Some(what) = compare(&h, &m, rows, cols) {
                // signature: operation kind + query that disagreed (first word)
                let q = what.split(['(', ' ']).next().unwrap_or("").to_string();
                l.violation(format!("after {}: {} disagrees with the set model", op_kind(&op), q), detail(what, &ops));
                return;
            }
            // abstract state visited
            if l.sets.get("abstract_states").map(|s| s.len()).unwrap_or(0) < 4000 {
                let st: Vec<String> = m.iter().map(|(r, c)| format!("{}.{}", r, c)).collect();
                l.seen("abstract_states", format!("{}x{}:{}", rows, cols, st.join(",")));
            }
        }
        if nontrivial {
            l.nt(d.get());
        }
        l.sample(|| {
            J::obj()
                .set("rows", rows)
                .set("cols", cols)
                .set("ops", J::A(ops.iter().take(12).map(op_json).collect()))
                .set("ops_total", ops.len())
        });
    });
}
