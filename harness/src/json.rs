//! Minimal JSON value, writer and parser (no external crates are available).

use std::fmt::Write;

#[derive(Debug, Clone, PartialEq)]
pub enum J {
    Null,
    B(bool),
    I(i64),
    U(u64),
    F(f64),
    S(String),
    A(Vec<J>),
    O(Vec<(String, J)>),
}

impl J {
    pub fn obj() -> J {
        J::O(Vec::new())
    }
    pub fn set(mut self, k: &str, v: impl Into<J>) -> J {
        if let J::O(ref mut o) = self {
            let v = v.into();
            if let Some(e) = o.iter_mut().find(|(kk, _)| kk == k) {
                e.1 = v;
            } else {
                o.push((k.to_string(), v));
            }
        }
        self
    }
    pub fn put(&mut self, k: &str, v: impl Into<J>) {
        if let J::O(o) = self {
            let v = v.into();
            if let Some(e) = o.iter_mut().find(|(kk, _)| kk == k) {
                e.1 = v;
            } else {
                o.push((k.to_string(), v));
            }
        }
    }
    pub fn get(&self, k: &str) -> Option<&J> {
        match self {
            J::O(o) => o.iter().find(|(kk, _)| kk == k).map(|(_, v)| v),
            _ => None,
        }
    }
    pub fn as_u64(&self) -> Option<u64> {
        match self {
            J::U(u) => Some(*u),
            J::I(i) if *i >= 0 => Some(*i as u64),
            J::F(f) if *f >= 0.0 && f.fract() == 0.0 => Some(*f as u64),
            _ => None,
        }
    }
    pub fn as_str(&self) -> Option<&str> {
        match self {
            J::S(s) => Some(s),
            _ => None,
        }
    }
    pub fn as_arr(&self) -> Option<&[J]> {
        match self {
            J::A(a) => Some(a),
            _ => None,
        }
    }

    pub fn to_string_pretty(&self) -> String {
        let mut s = String::new();
        self.write(&mut s, 0, true);
        s
    }
    pub fn to_string_compact(&self) -> String {
        let mut s = String::new();
        self.write(&mut s, 0, false);
        s
    }

    fn write(&self, s: &mut String, ind: usize, pretty: bool) {
        match self {
            J::Null => s.push_str("null"),
            J::B(b) => {
                let _ = write!(s, "{}", b);
            }
            J::I(i) => {
                let _ = write!(s, "{}", i);
            }
            J::U(u) => {
                let _ = write!(s, "{}", u);
            }
            J::F(f) => {
                if f.is_finite() {
                    let _ = write!(s, "{:?}", f);
                } else {
                    // JSON has no inf/nan: write as string
                    let _ = write!(s, "\"{:?}\"", f);
                }
            }
            J::S(x) => write_str(s, x),
            J::A(a) => {
                // arrays of scalars on one line
                let scalar = a.iter().all(|x| !matches!(x, J::A(_) | J::O(_)));
                s.push('[');
                for (i, x) in a.iter().enumerate() {
                    if i > 0 {
                        s.push(',');
                    }
                    if pretty && !scalar {
                        s.push('\n');
                        for _ in 0..ind + 1 {
                            s.push(' ');
                        }
                    } else if i > 0 {
                        s.push(' ');
                    }
                    x.write(s, ind + 1, pretty);
                }
                if pretty && !scalar && !a.is_empty() {
                    s.push('\n');
                    for _ in 0..ind {
                        s.push(' ');
                    }
                }
                s.push(']');
            }
            J::O(o) => {
                s.push('{');
                for (i, (k, v)) in o.iter().enumerate() {
                    if i > 0 {
                        s.push(',');
                    }
                    if pretty {
                        s.push('\n');
                        for _ in 0..ind + 1 {
                            s.push(' ');
                        }
                    } else if i > 0 {
                        s.push(' ');
                    }
                    write_str(s, k);
                    s.push_str(": ");
                    v.write(s, ind + 1, pretty);
                }
                if pretty && !o.is_empty() {
                    s.push('\n');
                    for _ in 0..ind {
                        s.push(' ');
                    }
                }
                s.push('}');
            }
        }
    }
}

fn write_str(s: &mut String, x: &str) {
    s.push('"');
    for c in x.chars() {
        match c {
            '"' => s.push_str("\\\""),
            '\\' => s.push_str("\\\\"),
            '\n' => s.push_str("\\n"),
            '\r' => s.push_str("\\r"),
            '\t' => s.push_str("\\t"),
            c if (c as u32) < 0x20 => {
                let _ = write!(s, "\\u{:04x}", c as u32);
            }
            c => s.push(c),
        }
    }
    s.push('"');
}

impl From<bool> for J {
    fn from(x: bool) -> J {
        J::B(x)
    }
}
impl From<i64> for J {
    fn from(x: i64) -> J {
        J::I(x)
    }
}
impl From<i32> for J {
    fn from(x: i32) -> J {
        J::I(x as i64)
    }
}
impl From<u8> for J {
    fn from(x: u8) -> J {
        J::U(x as u64)
    }
}
impl From<i8> for J {
    fn from(x: i8) -> J {
        J::I(x as i64)
    }
}
impl From<i16> for J {
    fn from(x: i16) -> J {
        J::I(x as i64)
    }
}
impl From<u64> for J {
    fn from(x: u64) -> J {
        J::U(x)
    }
}
impl From<u32> for J {
    fn from(x: u32) -> J {
        J::U(x as u64)
    }
}
impl From<usize> for J {
    fn from(x: usize) -> J {
        J::U(x as u64)
    }
}
impl From<f64> for J {
    fn from(x: f64) -> J {
        J::F(x)
    }
}
impl From<&str> for J {
    fn from(x: &str) -> J {
        J::S(x.to_string())
    }
}
impl From<String> for J {
    fn from(x: String) -> J {
        J::S(x)
    }
}
impl From<&String> for J {
    fn from(x: &String) -> J {
        J::S(x.clone())
    }
}
impl<T: Into<J>> From<Vec<T>> for J {
    fn from(x: Vec<T>) -> J {
        J::A(x.into_iter().map(Into::into).collect())
    }
}
impl<T: Into<J> + Clone> From<&[T]> for J {
    fn from(x: &[T]) -> J {
        J::A(x.iter().cloned().map(Into::into).collect())
    }
}
impl<T: Into<J>> From<Option<T>> for J {
    fn from(x: Option<T>) -> J {
        match x {
            Some(v) => v.into(),
            None => J::Null,
        }
    }
}

/// f64 with its exact bit pattern (for replays of hostile floats)
pub fn jf(x: f64) -> J {
    J::S(format!("{:e}#{:016x}", x, x.to_bits()))
}
pub fn jfs(x: &[f64]) -> J {
    J::A(x.iter().map(|&v| jf(v)).collect())
}
pub fn jentries(e: &[(usize, usize)]) -> J {
    // compact: "r,c r,c ..."
    J::S(e.iter().map(|&(r, c)| format!("{},{}", r, c)).collect::<Vec<_>>().join(" "))
}

// ---------------------------------------------------------------- parser

pub fn parse(s: &str) -> Result<J, String> {
    let b = s.as_bytes();
    let mut p = 0usize;
    let v = pv(b, &mut p)?;
    ws(b, &mut p);
    if p != b.len() {
        return Err(format!("trailing data at {}", p));
    }
    Ok(v)
}

fn ws(b: &[u8], p: &mut usize) {
    while *p < b.len() && (b[*p] as char).is_ascii_whitespace() {
        *p += 1;
    }
}

fn pv(b: &[u8], p: &mut usize) -> Result<J, String> {
    ws(b, p);
    if *p >= b.len() {
        return Err("eof".into());
    }
    match b[*p] {
        b'{' => {
            *p += 1;
            let mut o = Vec::new();
            loop {
                ws(b, p);
                if *p < b.len() && b[*p] == b'}' {
                    *p += 1;
                    break;
                }
                let k = match pv(b, p)? {
                    J::S(s) => s,
                    _ => return Err("key".into()),
                };
                ws(b, p);
                if *p >= b.len() || b[*p] != b':' {
                    return Err("colon".into());
                }
                *p += 1;
                let v = pv(b, p)?;
                o.push((k, v));
                ws(b, p);
                if *p < b.len() && b[*p] == b',' {
                    *p += 1;
                }
            }
            Ok(J::O(o))
        }
        b'[' => {
            *p += 1;
            let mut a = Vec::new();
            loop {
                ws(b, p);
                if *p < b.len() && b[*p] == b']' {
                    *p += 1;
                    break;
                }
                a.push(pv(b, p)?);
                ws(b, p);
                if *p < b.len() && b[*p] == b',' {
                    *p += 1;
                }
            }
            Ok(J::A(a))
        }
        b'"' => {
            *p += 1;
            let mut out = String::new();
            while *p < b.len() && b[*p] != b'"' {
                if b[*p] == b'\\' {
                    *p += 1;
                    if *p >= b.len() {
                        return Err("esc".into());
                    }
                    match b[*p] {
                        b'n' => out.push('\n'),
                        b't' => out.push('\t'),
                        b'r' => out.push('\r'),
                        b'u' => {
                            let h = std::str::from_utf8(&b[*p + 1..*p + 5]).map_err(|e| e.to_string())?;
                            let c = u32::from_str_radix(h, 16).map_err(|e| e.to_string())?;
                            out.push(char::from_u32(c).unwrap_or('?'));
                            *p += 4;
                        }
                        c => out.push(c as char),
                    }
                    *p += 1;
                } else {
                    // copy utf8 bytes
                    let start = *p;
                    *p += 1;
                    while *p < b.len() && (b[*p] & 0xC0) == 0x80 {
                        *p += 1;
                    }
                    out.push_str(std::str::from_utf8(&b[start..*p]).map_err(|e| e.to_string())?);
                }
            }
            *p += 1;
            Ok(J::S(out))
        }
        b't' => {
            *p += 4;
            Ok(J::B(true))
        }
        b'f' => {
            *p += 5;
            Ok(J::B(false))
        }
        b'n' => {
            *p += 4;
            Ok(J::Null)
        }
        _ => {
            let start = *p;
            while *p < b.len() && matches!(b[*p], b'-' | b'+' | b'.' | b'e' | b'E' | b'0'..=b'9') {
                *p += 1;
            }
            let t = std::str::from_utf8(&b[start..*p]).map_err(|e| e.to_string())?;
            if let Ok(u) = t.parse::<u64>() {
                Ok(J::U(u))
            } else if let Ok(i) = t.parse::<i64>() {
                Ok(J::I(i))
            } else {
                t.parse::<f64>().map(J::F).map_err(|e| format!("num {:?}: {}", t, e))
            }
        }
    }
}
