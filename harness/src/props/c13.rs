//! C13 – BER statistics are exact and the run terminates under every thread schedule.
//!
//! A scripted decoder (plugged in through the public `DecoderFactory`) gives
//! every simulated frame a unique identity and a scripted outcome, perturbs
//! the arrival order with random delays and logs what it produced; a
//! zero-interval `Reporter` delivers the cumulative statistics after (almost)
//! every consumed frame. An offline checker replays the two logs.

use crate::ctx::{Local, Run, guard, panic_class};
use crate::genm::Mat;
use crate::json::J;
use crate::rng::{Dig, Rng};
use ldpc_toolbox::decoder::factory::DecoderFactory;
use ldpc_toolbox::decoder::{DecoderOutput, LdpcDecoder};
use ldpc_toolbox::simulation::ber::{BerTest, Report, Reporter, Statistics};
use ldpc_toolbox::simulation::modulation::{Bpsk, Psk8};
use ldpc_toolbox::sparse::SparseMatrix;
use std::collections::HashMap;
use std::sync::atomic::{AtomicU64, AtomicUsize, Ordering};
use std::sync::{Arc, Mutex, mpsc};
use std::time::{Duration, Instant};

#[derive(Clone, Debug)]
pub struct FrameRec {
    pub worker: usize,
    pub u: u64,
    pub e: usize,
    pub success: bool,
    pub code: u64,
    pub t_in_ns: u64,
    pub t_out_ns: u64,
}

#[derive(Clone, Debug)]
pub struct Script {
    pub seed: u64,
    pub p_err: f64,
    pub max_e: usize,
    pub p_success_given_err: f64,
    pub delays: bool,
    /// decoder instance index -> panic at its n-th frame (0-based)
    pub panic_at: Vec<(usize, u64)>,
    /// every decoder panics at its first frame
    pub panic_all: bool,
    /// every decode call that starts after the given global frame number waits until a common deadline
    /// (all workers stall at once for the given number of milliseconds, then continue)
    pub stall: Option<(u64, u64)>,
    /// building the decoders with index >= .0 takes .1 milliseconds (the engine builds them one after the other on
    /// the collecting thread, so the workers already running get far ahead of the collector)
    pub slow_build: Option<(usize, u64)>,
    /// probability that a frame reports 0 iterations instead of its unique code (only where frames are not
    /// identified through their codes: the front-end run on one worker)
    pub zero_iter: f64,
}

pub struct Shared {
    pub k: usize,
    pub script: Script,
    pub counter: AtomicU64,
    pub log: Mutex<Vec<FrameRec>>,
    pub built: AtomicUsize,
    pub dropped: AtomicUsize,
    pub in_decode: AtomicUsize,
    pub last_begin_ns: AtomicU64,
    pub t0: Instant,
    /// deadline (ns since t0) of the common stall, 0 = not started
    pub stall_deadline_ns: AtomicU64,
}

impl Shared {
    fn now(&self) -> u64 {
        self.t0.elapsed().as_nanos() as u64
    }
}

pub fn script_of(s: &Script, u: u64, k: usize) -> (usize, bool, u64) {
    let mut r = Rng::keyed(s.seed, "C13", "script", u);
    let err = r.chance(s.p_err);
    let e = if err { r.range(1, s.max_e.max(1).min(k.max(1))) } else { 0 };
    let success = if e > 0 { r.chance(s.p_success_given_err) } else { r.chance(0.97) };
    let code = 1 + (r.next_u64() & ((1u64 << 44) - 1));
    (e, success, code)
}

#[derive(Clone)]
pub struct ScriptFactory(pub Arc<Shared>);
impl std::fmt::Display for ScriptFactory {
    fn fmt(&self, f: &mut std::fmt::Formatter<'_>) -> std::fmt::Result {
        write!(f, "scripted")
    }
}
impl DecoderFactory for ScriptFactory {
    fn build_decoder(&self, h: SparseMatrix) -> Box<dyn LdpcDecoder> {
        let idx = self.0.built.fetch_add(1, Ordering::SeqCst);
        if let Some((from, ms)) = self.0.script.slow_build {
            if idx >= from {
                std::thread::sleep(Duration::from_millis(ms));
            }
        }
        Box::new(ScriptDecoder {
            sh: self.0.clone(),
            worker: idx,
            n: h.num_cols(),
            local: 0,
        })
    }
}

pub struct ScriptDecoder {
    sh: Arc<Shared>,
    worker: usize,
    n: usize,
    local: u64,
}
impl std::fmt::Debug for ScriptDecoder {
    fn fmt(&self, f: &mut std::fmt::Formatter<'_>) -> std::fmt::Result {
        write!(f, "ScriptDecoder#{}", self.worker)
    }
}
impl Drop for ScriptDecoder {
    fn drop(&mut self) {
        self.sh.dropped.fetch_add(1, Ordering::SeqCst);
    }
}
impl LdpcDecoder for ScriptDecoder {
    fn decode(&mut self, llrs: &[f64], _max_iterations: usize) -> Result<DecoderOutput, DecoderOutput> {
        let sh = self.sh.clone();
        let t_in = sh.now();
        sh.last_begin_ns.fetch_max(t_in, Ordering::SeqCst);
        sh.in_decode.fetch_add(1, Ordering::SeqCst);
        let local = self.local;
        self.local += 1;
        if sh.script.panic_all || sh.script.panic_at.iter().any(|&(w, n)| w == self.worker && n == local) {
            sh.in_decode.fetch_sub(1, Ordering::SeqCst);
            panic!("scripted decoder panic (failure injection)");
        }
        let u = sh.counter.fetch_add(1, Ordering::SeqCst);
        if let Some((at, ms)) = sh.script.stall {
            if u >= at {
                // the first worker to get here fixes the common deadline; everybody who arrives before it waits
                let _ = sh.stall_deadline_ns.compare_exchange(0, sh.now() + ms * 1_000_000, Ordering::SeqCst, Ordering::SeqCst);
                let dl = sh.stall_deadline_ns.load(Ordering::SeqCst);
                let now = sh.now();
                if now < dl {
                    std::thread::sleep(Duration::from_nanos(dl - now));
                }
            }
        }
        let (e, success, code) = script_of(&sh.script, u, sh.k);
        let mut word: Vec<u8> = llrs.iter().map(|&x| (x <= 0.0) as u8).collect();
        debug_assert_eq!(word.len(), self.n);
        // flip e distinct systematic positions chosen by the script (first, last and random ones)
        if e > 0 {
            let mut r = Rng::keyed(sh.script.seed, "C13", "positions", u);
            let k = sh.k.min(word.len());
            let mut pos: Vec<usize> = match r.below(3) {
                0 => (0..e).collect(),
                1 => (k - e..k).collect(),
                _ => r.choose(k, e),
            };
            pos.sort_unstable();
            for p in pos {
                word[p] ^= 1;
            }
        }
        if sh.script.delays {
            // heavy-tailed delay BEFORE returning: perturbs the arrival order at the collector
            let mut r = Rng::keyed(sh.script.seed, "C13", "delay", u);
            match r.below(100) {
                0..=59 => {}
                60..=79 => std::thread::yield_now(),
                80..=92 => {
                    let spins = r.range(100, 20_000);
                    for _ in 0..spins {
                        std::hint::spin_loop();
                    }
                }
                93..=98 => std::thread::sleep(Duration::from_micros(r.range(20, 400) as u64)),
                _ => std::thread::sleep(Duration::from_micros(r.range(1000, 6000) as u64)),
            }
        }
        let rec = FrameRec {
            worker: self.worker,
            u,
            e,
            success,
            code,
            t_in_ns: t_in,
            t_out_ns: sh.now(),
        };
        sh.log.lock().unwrap().push(rec);
        sh.in_decode.fetch_sub(1, Ordering::SeqCst);
        let iterations = if sh.script.zero_iter > 0.0 && Rng::keyed(sh.script.seed, "C13", "zero-iter", u).chance(sh.script.zero_iter) { 0 } else { code as usize };
        let out = DecoderOutput { codeword: word, iterations };
        if success { Ok(out) } else { Err(out) }
    }
}

// ---------------------------------------------------------------- scenario

#[derive(Clone, Debug)]
pub struct Params {
    pub workers: usize,
    pub affinity_mode: u8, // 0 restored, 1 kept (W threads on W cpus), 2 one cpu
    pub target: u64,
    pub bch: u64,
    pub ebn0s: Vec<f32>,
    pub script: Script,
    pub puncture: Option<Vec<bool>>,
    pub interleave: Option<isize>,
    pub psk8: bool,
    pub kind: &'static str,
    pub h: Mat,
    /// interval of the Reporter (0 = one snapshot per consumed frame)
    pub report_interval_ms: u64,
}

fn params_json(p: &Params) -> J {
    J::obj()
        .set("kind", p.kind)
        .set("workers", p.workers)
        .set("affinity_mode", p.affinity_mode as u64)
        .set("target_frame_errors", p.target)
        .set("bch_max_errors", p.bch)
        .set("ebn0s", p.ebn0s.iter().map(|&x| x as f64).collect::<Vec<_>>())
        .set("delays", p.script.delays)
        .set("p_err", p.script.p_err)
        .set("max_e", p.script.max_e)
        .set("panic_at", format!("{:?}", p.script.panic_at))
        .set("panic_all", p.script.panic_all)
        .set("puncture", format!("{:?}", p.puncture))
        .set("interleave", format!("{:?}", p.interleave))
        .set("modulation", if p.psk8 { "8PSK" } else { "BPSK" })
        .set("h", format!("{}x{}", p.h.rows, p.h.cols))
        .set("script_seed", p.script.seed)
}

#[cfg(not(miri))]
fn set_affinity(cpus: &[usize]) -> bool {
    unsafe {
        let mut set: libc::cpu_set_t = std::mem::zeroed();
        libc::CPU_ZERO(&mut set);
        for &c in cpus {
            libc::CPU_SET(c, &mut set);
        }
        libc::sched_setaffinity(0, std::mem::size_of::<libc::cpu_set_t>(), &set) == 0
    }
}
#[cfg(not(miri))]
fn get_affinity() -> Vec<usize> {
    unsafe {
        let mut set: libc::cpu_set_t = std::mem::zeroed();
        libc::CPU_ZERO(&mut set);
        if libc::sched_getaffinity(0, std::mem::size_of::<libc::cpu_set_t>(), &mut set) != 0 {
            return vec![];
        }
        (0..1024).filter(|&c| libc::CPU_ISSET(c, &set)).collect()
    }
}
#[cfg(miri)]
fn set_affinity(_cpus: &[usize]) -> bool {
    true
}
#[cfg(miri)]
fn get_affinity() -> Vec<usize> {
    vec![0]
}

pub struct Outcome {
    pub result: Option<Result<Vec<Statistics>, String>>, // None = did not return (hang)
    pub panicked: Option<String>,
    pub reports: Vec<Report>,
    pub log: Vec<FrameRec>,
    pub built: usize,
    pub dropped_at_return: usize,
    pub in_decode_at_return: usize,
    pub t_return_ns: u64,
    pub last_begin_ns_after: u64,
    pub workers_seen: usize,
    pub wall_ms: u64,
}

pub fn run_scenario(p: &Params) -> Outcome {
    let sh = Arc::new(Shared {
        k: p.h.cols - p.h.rows,
        script: p.script.clone(),
        counter: AtomicU64::new(0),
        log: Mutex::new(Vec::new()),
        built: AtomicUsize::new(0),
        dropped: AtomicUsize::new(0),
        in_decode: AtomicUsize::new(0),
        last_begin_ns: AtomicU64::new(0),
        t0: Instant::now(),
        stall_deadline_ns: AtomicU64::new(0),
    });
    let (rtx, rrx) = mpsc::channel::<Report>();
    let reporter = Reporter { tx: rtx, interval: Duration::from_millis(p.report_interval_ms) };
    let orig = get_affinity();
    let want: Vec<usize> = orig.iter().cloned().take(p.workers.max(1)).collect();
    let aff_ok = !cfg!(miri) && want.len() == p.workers && set_affinity(&want);
    let h = p.h.to_sparse();
    let fac = ScriptFactory(sh.clone());
    let start = Instant::now();
    // BerTest::new reads num_cpus::get() (the affinity mask of this thread)
    enum AnyTest {
        B(BerTest<Bpsk, ScriptFactory>),
        P(BerTest<Psk8, ScriptFactory>),
    }
    let built = guard(|| {
        if p.psk8 {
            BerTest::<Psk8, ScriptFactory>::new(h.clone(), fac.clone(), p.puncture.as_deref(), p.interleave, p.target, 10, &p.ebn0s, Some(reporter.clone()), p.bch).map(AnyTest::P)
        } else {
            BerTest::<Bpsk, ScriptFactory>::new(h.clone(), fac.clone(), p.puncture.as_deref(), p.interleave, p.target, 10, &p.ebn0s, Some(reporter.clone()), p.bch).map(AnyTest::B)
        }
    });
    drop(reporter);
    match p.affinity_mode {
        0 => {
            set_affinity(&orig);
        }
        1 => {}
        _ => {
            if aff_ok {
                set_affinity(&want[..1]);
            }
        }
    }
    let mut out = Outcome {
        result: None,
        panicked: None,
        reports: Vec::new(),
        log: Vec::new(),
        built: 0,
        dropped_at_return: 0,
        in_decode_at_return: 0,
        t_return_ns: 0,
        last_begin_ns_after: 0,
        workers_seen: 0,
        wall_ms: 0,
    };
    let test = match built {
        Ok(Ok(t)) => t,
        Ok(Err(e)) => {
            set_affinity(&orig);
            out.result = Some(Err(format!("BerTest::new: {}", e)));
            return out;
        }
        Err(pn) => {
            set_affinity(&orig);
            out.panicked = Some(pn);
            return out;
        }
    };
    // run in a thread of its own (spawned with the affinity chosen above) under a watchdog
    let (dtx, drx) = mpsc::channel();
    let sh2 = sh.clone();
    let runner = std::thread::spawn(move || {
        let r = guard(move || match test {
            AnyTest::B(t) => t.run().map_err(|e| e.to_string()),
            AnyTest::P(t) => t.run().map_err(|e| e.to_string()),
        });
        // sampled immediately when run() has returned
        let snapshot = (sh2.now(), sh2.dropped.load(Ordering::SeqCst), sh2.in_decode.load(Ordering::SeqCst), sh2.built.load(Ordering::SeqCst));
        let _ = dtx.send((r, snapshot));
    });
    set_affinity(&orig);
    // Under Miri there is no watchdog: an untimed wait lets the interpreter report
    // "the evaluated program deadlocked" when the collector blocks forever.
    let received = if cfg!(miri) { drx.recv().map_err(|_| ()) } else { drx.recv_timeout(Duration::from_secs(60)).map_err(|_| ()) };
    match received {
        Ok((r, (t_ret, dropped, in_dec, built))) => {
            let _ = runner.join();
            match r {
                Ok(res) => out.result = Some(res),
                Err(pn) => out.panicked = Some(pn),
            }
            out.t_return_ns = t_ret;
            out.dropped_at_return = dropped;
            out.in_decode_at_return = in_dec;
            out.built = built;
        }
        Err(_) => {
            // did not return: leave the thread behind (it cannot be killed)
            out.result = None;
            out.built = sh.built.load(Ordering::SeqCst);
        }
    }
    // give a late (unjoined) worker the chance to show itself
    if !cfg!(miri) {
        std::thread::sleep(Duration::from_millis(if out.result.is_none() { 0 } else { 15 }));
    }
    out.last_begin_ns_after = sh.last_begin_ns.load(Ordering::SeqCst);
    out.reports = rrx.try_iter().collect();
    out.log = sh.log.lock().unwrap().clone();
    out.workers_seen = {
        let mut w: Vec<usize> = out.log.iter().map(|r| r.worker).collect();
        w.sort_unstable();
        w.dedup();
        w.len()
    };
    out.wall_ms = start.elapsed().as_millis() as u64;
    out
}

// ---------------------------------------------------------------- offline checker

#[derive(Default, Clone, Debug, PartialEq)]
struct Counts {
    frames: u64,
    bit_errors: u64,
    frame_errors: u64,
    false_decodes: u64,
    total_iter: u64,
    correct_iter: u64,
    bch_bit_errors: u64,
    bch_frame_errors: u64,
    bch_correct_iter: u64,
}

fn counts_of(s: &Statistics) -> Counts {
    Counts {
        frames: s.num_frames,
        bit_errors: s.ldpc.bit_errors,
        frame_errors: s.ldpc.frame_errors,
        false_decodes: s.false_decodes,
        total_iter: s.total_iterations,
        correct_iter: s.ldpc.correct_iterations,
        bch_bit_errors: s.bch.as_ref().map(|b| b.bit_errors).unwrap_or(0),
        bch_frame_errors: s.bch.as_ref().map(|b| b.frame_errors).unwrap_or(0),
        bch_correct_iter: s.bch.as_ref().map(|b| b.correct_iterations).unwrap_or(0),
    }
}

fn add_frame(c: &mut Counts, f: &FrameRec, bch: u64) {
    c.frames += 1;
    c.bit_errors += f.e as u64;
    c.total_iter += f.code;
    if f.e > 0 {
        c.frame_errors += 1;
        if f.success {
            c.false_decodes += 1;
        }
    } else {
        c.correct_iter += f.code;
    }
    if bch > 0 {
        if f.e as u64 > bch {
            c.bch_bit_errors += f.e as u64;
            c.bch_frame_errors += 1;
        } else {
            c.bch_correct_iter += f.code;
        }
    }
}

fn ratio_ok(got: f64, num: f64, den: f64) -> bool {
    let want = num / den;
    if want.is_nan() {
        return got.is_nan();
    }
    if want.is_infinite() {
        return got == want;
    }
    (got - want).abs() <= 1e-12 * want.abs()
}

fn check_ratios(s: &Statistics, k: usize) -> Option<String> {
    let n = s.num_frames as f64;
    if !ratio_ok(s.ldpc.ber, s.ldpc.bit_errors as f64, k as f64 * n) {
        return Some(format!("BER {} is not bit errors {} / (k {} * frames {})", s.ldpc.ber, s.ldpc.bit_errors, k, s.num_frames));
    }
    if !ratio_ok(s.ldpc.fer, s.ldpc.frame_errors as f64, n) {
        return Some(format!("FER {} is not frame errors {} / frames {}", s.ldpc.fer, s.ldpc.frame_errors, s.num_frames));
    }
    if !ratio_ok(s.average_iterations, s.total_iterations as f64, n) {
        return Some(format!("average iterations {} is not total {} / frames {}", s.average_iterations, s.total_iterations, s.num_frames));
    }
    if !ratio_ok(s.ldpc.average_iterations_correct, s.ldpc.correct_iterations as f64, (s.num_frames - s.ldpc.frame_errors) as f64) {
        return Some(format!("average iterations of correct frames {} is not {} / {}", s.ldpc.average_iterations_correct, s.ldpc.correct_iterations, s.num_frames - s.ldpc.frame_errors));
    }
    if let Some(b) = &s.bch {
        if !ratio_ok(b.ber, b.bit_errors as f64, k as f64 * n) || !ratio_ok(b.fer, b.frame_errors as f64, n) || !ratio_ok(b.average_iterations_correct, b.correct_iterations as f64, (s.num_frames - b.frame_errors) as f64) {
            return Some("outer-code BER/FER/average are not the stated ratios".into());
        }
    }
    None
}

/// Find which of the next unconsumed frames (per worker, FIFO) make up a step of `m` frames whose iteration codes sum to `dsum`.
fn resolve(next: &mut [usize], per_worker: &[Vec<FrameRec>], m: u64, dsum: u64, budget: &mut u64) -> Option<Vec<(usize, usize)>> {
    if m == 0 {
        return if dsum == 0 { Some(vec![]) } else { None };
    }
    for w in 0..per_worker.len() {
        if *budget == 0 {
            return None;
        }
        *budget -= 1;
        let i = next[w];
        if i >= per_worker[w].len() {
            continue;
        }
        let c = per_worker[w][i].code;
        if c > dsum {
            continue;
        }
        next[w] += 1;
        if let Some(mut rest) = resolve(next, per_worker, m - 1, dsum - c, budget) {
            rest.push((w, i));
            next[w] -= 1;
            return Some(rest);
        }
        next[w] -= 1;
    }
    None
}

pub struct Analysis {
    pub violations: Vec<(String, String)>,
    pub inconclusive: Vec<String>,
    pub consumed: u64,
    pub produced: u64,
    pub interleaving_digest: u64,
    pub sorted_by_worker: bool,
    pub reports: usize,
    pub multi_steps: u64,
}

pub fn analyze(p: &Params, o: &Outcome) -> Analysis {
    let mut a = Analysis {
        violations: Vec::new(),
        inconclusive: Vec::new(),
        consumed: 0,
        produced: o.log.len() as u64,
        interleaving_digest: 0,
        sorted_by_worker: true,
        reports: o.reports.len(),
        multi_steps: 0,
    };
    let k = p.h.cols - p.h.rows;
    let v = |a: &mut Analysis, sig: &str, d: String| a.violations.push((sig.to_string(), d));
    // ---- report stream shape: Statistics*, then exactly one Finished at the very end
    let nfin = o.reports.iter().filter(|r| matches!(r, Report::Finished)).count();
    let returned = o.result.is_some() || o.panicked.is_some();
    if o.result.is_some() {
        if nfin != 1 || !matches!(o.reports.last(), Some(Report::Finished)) {
            v(&mut a, "the report stream does not end with exactly one 'finished' report after the last statistics", format!("{} finished reports among {}; last = {:?}", nfin, o.reports.len(), o.reports.last().map(|r| matches!(r, Report::Finished))));
        }
    }
    // ---- workers joined / nothing running after return
    if returned && o.result.is_some() {
        if o.dropped_at_return != o.built {
            v(&mut a, "run() returned while worker threads were still alive (their decoders were not yet dropped)", format!("{} decoders built, {} dropped when run() returned, {} inside decode()", o.built, o.dropped_at_return, o.in_decode_at_return));
        }
        if o.last_begin_ns_after > o.t_return_ns {
            v(&mut a, "a decode call began after run() had returned", format!("last decode begin at {} ns, run() returned at {} ns", o.last_begin_ns_after, o.t_return_ns));
        }
    }
    // ---- per point analysis
    let stats: Vec<&Statistics> = o.reports.iter().filter_map(|r| if let Report::Statistics(s) = r { Some(s) } else { None }).collect();
    // split into points by ebn0 (points are simulated in order)
    let mut per_worker: HashMap<usize, Vec<FrameRec>> = HashMap::new();
    let mut log_sorted = o.log.clone();
    log_sorted.sort_by_key(|r| r.u);
    // frame ids are allocated in decode order per worker: u order = production order within a worker
    for r in &log_sorted {
        per_worker.entry(r.worker).or_default().push(r.clone());
    }
    let mut workers: Vec<usize> = per_worker.keys().cloned().collect();
    workers.sort_unstable();
    let pw: Vec<Vec<FrameRec>> = workers.iter().map(|w| per_worker[w].clone()).collect();
    let mut next = vec![0usize; pw.len()];
    let code_owner: HashMap<u64, (usize, usize)> = pw.iter().enumerate().flat_map(|(w, v)| v.iter().enumerate().map(move |(i, r)| (r.code, (w, i)))).collect();
    let mut order_dig = Dig::new();
    let mut last_worker_seen: Option<usize> = None;
    let mut point_idx = 0usize;
    let mut i = 0usize;
    let mut finals: Vec<Counts> = Vec::new();
    while i < stats.len() {
        let eb = stats[i].ebn0_db;
        let mut j = i;
        while j < stats.len() && stats[j].ebn0_db == eb {
            j += 1;
        }
        // expected ebn0 of this point
        if point_idx >= p.ebn0s.len() || p.ebn0s[point_idx] != eb {
            v(&mut a, "statistics are reported for an Eb/N0 that is not the next requested one", format!("point {} reported {} requested {:?}", point_idx, eb, p.ebn0s));
            break;
        }
        let mut model = Counts::default();
        let mut prev = Counts::default();
        let mut last_consumed: Option<FrameRec> = None;
        let mut resolvable = true;
        for s in &stats[i..j] {
            let cur = counts_of(s);
            if let Some(why) = check_ratios(s, k) {
                v(&mut a, "a derived ratio in a report is not the stated ratio of its counters", why);
            }
            if (p.bch > 0) != s.bch.is_some() {
                v(&mut a, "outer-code statistics present/absent contrary to the configuration", format!("bch_max_errors {} bch stats {}", p.bch, s.bch.is_some()));
            }
            if cur.frames < prev.frames {
                v(&mut a, "frame count decreased between two reports", format!("{} -> {}", prev.frames, cur.frames));
                resolvable = false;
                break;
            }
            let m = cur.frames - prev.frames;
            if m == 0 {
                if cur != prev {
                    v(&mut a, "counters changed although no frame was consumed", format!("{:?} -> {:?}", prev, cur));
                }
                continue;
            }
            if !resolvable {
                prev = cur;
                continue;
            }
            if cur.total_iter < prev.total_iter {
                v(&mut a, "total iterations decreased between two reports", format!("{} -> {}", prev.total_iter, cur.total_iter));
                resolvable = false;
                continue;
            }
            let dsum = cur.total_iter - prev.total_iter;
            let step: Option<Vec<(usize, usize)>> = if m == 1 {
                match code_owner.get(&dsum) {
                    None => {
                        v(&mut a, "a consumed frame was never produced by any worker (invented or corrupted result)", format!("iteration increment {} matches no produced frame", dsum));
                        resolvable = false;
                        None
                    }
                    Some(&(w, idx)) => {
                        if idx < next[w] {
                            v(&mut a, "a frame was consumed twice", format!("frame u={} of worker {}", pw[w][idx].u, workers[w]));
                            resolvable = false;
                            None
                        } else if idx > next[w] {
                            v(&mut a, "results of one worker were consumed out of production order (or an earlier result was lost)", format!("worker {}: consumed its frame #{} while #{} was pending", workers[w], idx, next[w]));
                            resolvable = false;
                            None
                        } else {
                            Some(vec![(w, idx)])
                        }
                    }
                }
            } else if m > 6 {
                a.multi_steps += 1;
                a.inconclusive.push(format!("a single report step covers {} frames: too many to attribute to individual frames (counters of this point are only checked for the stop rule)", m));
                resolvable = false;
                None
            } else {
                a.multi_steps += 1;
                let mut budget = 200_000u64;
                let r = resolve(&mut next, &pw, m, dsum, &mut budget);
                if r.is_none() {
                    if budget == 0 {
                        a.inconclusive.push(format!("a report step covering {} frames could not be resolved within the search budget", m));
                    } else {
                        v(&mut a, "a report step is not the sum of the next unconsumed frames of the workers (lost, duplicated, reordered or invented results)", format!("{} frames with iteration sum {}", m, dsum));
                    }
                    resolvable = false;
                }
                r
            };
            if let Some(mut fr) = step {
                fr.sort_by_key(|&(w, idx)| pw[w][idx].t_out_ns);
                for &(w, idx) in &fr {
                    let f = &pw[w][idx];
                    add_frame(&mut model, f, p.bch);
                    next[w] = next[w].max(idx + 1);
                    order_dig.u(workers[w] as u64);
                    if let Some(lw) = last_worker_seen {
                        if workers[w] < lw {
                            a.sorted_by_worker = false;
                        }
                    }
                    last_worker_seen = Some(workers[w]);
                    last_consumed = Some(f.clone());
                    a.consumed += 1;
                }
                if model != cur {
                    let field = if model.frames != cur.frames {
                        "frame count"
                    } else if model.bit_errors != cur.bit_errors {
                        "bit errors"
                    } else if model.frame_errors != cur.frame_errors {
                        "frame errors"
                    } else if model.false_decodes != cur.false_decodes {
                        "false decodes"
                    } else if model.correct_iter != cur.correct_iter {
                        "correct-frame iterations"
                    } else if model.bch_bit_errors != cur.bch_bit_errors {
                        "outer-code bit errors"
                    } else if model.bch_frame_errors != cur.bch_frame_errors {
                        "outer-code frame errors"
                    } else if model.bch_correct_iter != cur.bch_correct_iter {
                        "outer-code correct iterations"
                    } else {
                        "total iterations"
                    };
                    v(&mut a, &format!("reported {} do not add up over the consumed frames", field), format!("reported {:?} ; sum over consumed frames {:?}", cur, model));
                    resolvable = false;
                }
            }
            prev = cur;
        }
        // stop rule: the terminating counter equals the target exactly and the last consumed frame incremented it
        let last = counts_of(stats[j - 1]);
        let term = if p.bch > 0 { last.bch_frame_errors } else { last.frame_errors };
        // (a point that ended because the run failed is exempt: only the last reported point can be one)
        let run_ok = matches!(o.result, Some(Ok(_)));
        if run_ok || j < stats.len() {
            if term != p.target {
                v(&mut a, "the point did not stop exactly when the required number of frame errors had been collected", format!("terminating counter = {} target = {} (frames {})", term, p.target, last.frames));
            } else if resolvable {
                if let Some(f) = &last_consumed {
                    let inc = if p.bch > 0 { f.e as u64 > p.bch } else { f.e > 0 };
                    if !inc {
                        v(&mut a, "frames were still consumed after the error target had been reached", format!("last consumed frame u={} has e={}", f.u, f.e));
                    }
                }
            }
        }
        finals.push(last);
        // frames produced for this point but never consumed are discarded: skip them
        // (a new point builds new decoders, i.e. new worker indices, so `next` of old workers is simply left behind)
        point_idx += 1;
        i = j;
    }
    a.interleaving_digest = order_dig.get();
    // ---- returned vector
    if let Some(Ok(ret)) = &o.result {
        if ret.len() != p.ebn0s.len() {
            v(&mut a, "the returned statistics do not have one entry per requested Eb/N0", format!("{} entries for {} points", ret.len(), p.ebn0s.len()));
        }
        for (idx, s) in ret.iter().enumerate() {
            if idx < p.ebn0s.len() && s.ebn0_db != p.ebn0s[idx] {
                v(&mut a, "returned statistics are not in the order of the requested Eb/N0 values", format!("entry {} has {}", idx, s.ebn0_db));
            }
            if idx < finals.len() && counts_of(s) != finals[idx] {
                v(&mut a, "returned statistics differ from the last report of the point", format!("returned {:?} last report {:?}", counts_of(s), finals[idx]));
            }
            if let Some(why) = check_ratios(s, k) {
                v(&mut a, "a derived ratio in the returned statistics is not the stated ratio of its counters", why);
            }
        }
        if finals.len() != p.ebn0s.len() {
            v(&mut a, "not every requested Eb/N0 produced a statistics report", format!("{} points reported of {}", finals.len(), p.ebn0s.len()));
        }
    }
    a
}

// ---------------------------------------------------------------- workloads

fn small_h(rng: &mut Rng) -> Mat {
    // repeat-accumulate style codes (staircase tail): encoder always exists
    let (r, n) = *rng.pick(&[(6usize, 12usize), (12, 24), (9, 15), (8, 24)]);
    let k = n - r;
    let mut e = Vec::new();
    for c in 0..k {
        for j in rng.choose(r, 2.min(r)) {
            e.push((j, c));
        }
    }
    for j in 0..r {
        e.push((j, k + j));
        if j > 0 {
            e.push((j, k + j - 1));
        }
    }
    Mat::new(r, n, e, "ra")
}

fn base_script(rng: &mut Rng, k: usize) -> Script {
    Script {
        seed: rng.next_u64(),
        p_err: *rng.pick(&[0.05, 0.2, 0.5, 1.0]),
        max_e: rng.range(1, k.min(5)),
        p_success_given_err: *rng.pick(&[0.0, 0.3, 1.0]),
        delays: rng.chance(0.7),
        panic_at: vec![],
        panic_all: false,
        stall: None,
        slow_build: None,
        zero_iter: 0.0,
    }
}

/// set once a run did not return: the leaked threads make further scenarios in this process meaningless
static HUNG: std::sync::atomic::AtomicBool = std::sync::atomic::AtomicBool::new(false);

fn judge(l: &mut Local, p: &Params, o: &Outcome, expect: &str) {
    l.eval();
    let pj = || params_json(p).set("produced_frames", o.log.len()).set("reports", o.reports.len()).set("wall_ms", o.wall_ms).set("workers_seen", o.workers_seen);
    // termination
    if o.result.is_none() && o.panicked.is_none() {
        l.violation(
            format!("BerTest::run did not return ({}): the run hangs", p.kind),
            pj().set("decoders_built", o.built).set("note", "watchdog 60 s; no result was delivered; all worker threads had finished or panicked"),
        );
        HUNG.store(true, Ordering::SeqCst);
        return;
    }
    match expect {
        "ok" => match (&o.result, &o.panicked) {
            (Some(Ok(_)), _) => {}
            (Some(Err(e)), _) => {
                l.violation(format!("BerTest::run returned an error in a fault-free configuration ({})", p.kind), pj().set("error", e.clone()));
                return;
            }
            (_, Some(pn)) => {
                l.violation(format!("BerTest::run panicked in a fault-free configuration: {}", panic_class(pn)), pj().set("panic", pn.clone()));
                return;
            }
            _ => {}
        },
        "err" => match (&o.result, &o.panicked) {
            (Some(Err(_)), _) => {
                l.count(&format!("returned_error:{}", p.kind));
            }
            (Some(Ok(_)), _) => {
                l.violation(format!("BerTest::run returned Ok although frames cannot be processed ({})", p.kind), pj());
                return;
            }
            (_, Some(pn)) => {
                l.violation(
                    format!("BerTest::run panicked instead of returning an error ({}): {}", p.kind, panic_class(pn)),
                    pj().set("panic", pn.clone()),
                );
                return;
            }
            _ => {}
        },
        _ => {
            // "terminates": Ok, Err or a propagated panic are all accepted
            l.count(&format!(
                "partial_failure_outcome:{}",
                match (&o.result, &o.panicked) {
                    (Some(Ok(_)), _) => "ok",
                    (Some(Err(_)), _) => "err",
                    _ => "panic",
                }
            ));
        }
    }
    let a = analyze(p, o);
    for w in &a.inconclusive {
        l.inconclusive(format!("{}: {}", p.kind, w));
    }
    for (sig, d) in &a.violations {
        l.violation(format!("{} [{}]", sig, if p.kind.starts_with("fault") { "fault injection" } else { "normal run" }), pj().set("detail", d.clone()));
    }
    l.count_n("frames_produced", a.produced);
    l.count_n("frames_consumed_and_checked", a.consumed);
    l.count_n("frames_discarded_after_termination", a.produced.saturating_sub(a.consumed));
    l.count_n("reports_checked", a.reports as u64);
    l.count_n("multi_frame_report_steps", a.multi_steps);
    l.count(&format!("workers:{}", o.workers_seen));
    if a.violations.is_empty() && a.consumed > 0 {
        l.seen("distinct_consumption_interleavings", format!("{:016x}", a.interleaving_digest));
        if o.workers_seen >= 2 && !a.sorted_by_worker {
            l.nt(a.interleaving_digest);
        }
    }
}

// ---------------------------------------------------------------- the `ber` front end (result files)

/// The scripted decoder as a command-line selectable implementation (the front end is generic over the factory,
/// like examples/external_decoder_ber.rs shows); the script is handed over through a process-wide slot.
#[derive(Clone, Copy, Debug, PartialEq, Eq)]
pub enum CliScripted {
    Scripted,
}
static CLI_SHARED: Mutex<Option<Arc<Shared>>> = Mutex::new(None);
impl std::fmt::Display for CliScripted {
    fn fmt(&self, f: &mut std::fmt::Formatter<'_>) -> std::fmt::Result {
        write!(f, "Scripted")
    }
}
impl DecoderFactory for CliScripted {
    fn build_decoder(&self, h: SparseMatrix) -> Box<dyn LdpcDecoder> {
        ScriptFactory(CLI_SHARED.lock().unwrap().clone().expect("script installed")).build_decoder(h)
    }
}
impl clap::ValueEnum for CliScripted {
    fn value_variants<'a>() -> &'a [Self] {
        &[CliScripted::Scripted]
    }
    fn to_possible_value(&self) -> Option<clap::builder::PossibleValue> {
        Some(clap::builder::PossibleValue::new("Scripted"))
    }
}

fn parse_result_rows(text: &str) -> Vec<Vec<String>> {
    text.lines()
        .filter(|l| l.matches('|').count() == 10 && l.trim_start().chars().next().map(|c| c.is_ascii_digit() || c == '-').unwrap_or(false) && !l.starts_with("--------"))
        .map(|l| l.split('|').map(|f| f.trim().to_string()).collect())
        .collect()
}

/// ONE run of the `ber` front end (`cli::ber::Args::run`, which can be used once per process because it registers a
/// Ctrl-C handler) with the scripted decoder, an outer-code threshold and both result files, on one CPU so that
/// every point has exactly one worker: the frames a point consumed are then the first F records of that worker, and
/// every integer column of every row of both files has an exact expected value.
pub fn cli_ber_one(run: &mut Run) {
    use clap::Parser;
    use ldpc_toolbox::cli::Run as CliRun;
    run.rule = "one run of cli::ber::Args<Scripted>::run per process: scripted decoder (every frame has 1..3 systematic bit errors), --bch-max-errors 1 or 2, 3 Eb/N0 points, --output-file and --output-file-ldpc; one CPU, so each point has one worker; expected integer columns (frames, bit errors, frame errors, false decodes) of every row of both files computed from the scripted frame log".into();
    run.min_nontrivial = 1;
    run.sub_seq("cli-ber-result-files", 1, |l, _idx, rng| {
        let h = small_h(rng);
        let k = h.cols - h.rows;
        let mut script = base_script(rng, k);
        script.p_err = 1.0;
        script.max_e = 3.min(k);
        script.delays = false;
        // a third of the frames claims zero iterations (success or failure alike, always with wrong bits)
        script.zero_iter = 0.33;
        script.p_success_given_err = 0.5;
        let t = rng.range(1, 2) as u64;
        let target = rng.range(3, 12) as u64;
        let sh = Arc::new(Shared {
            k,
            script: script.clone(),
            counter: AtomicU64::new(0),
            log: Mutex::new(Vec::new()),
            built: AtomicUsize::new(0),
            dropped: AtomicUsize::new(0),
            in_decode: AtomicUsize::new(0),
            last_begin_ns: AtomicU64::new(0),
            t0: Instant::now(),
            stall_deadline_ns: AtomicU64::new(0),
        });
        *CLI_SHARED.lock().unwrap() = Some(sh.clone());
        let base = format!("/verif/target/legs/c13-cliber-{}", std::process::id());
        let (apath, fa, fb) = (format!("{}.alist", base), format!("{}.out", base), format!("{}.ldpc.out", base));
        let _ = std::fs::create_dir_all("/verif/target/legs");
        std::fs::write(&apath, h.to_sparse().alist()).expect("write alist");
        let argv: Vec<String> = vec![
            "ber".into(), apath.clone(), "--decoder".into(), "Scripted".into(), "--min-ebn0".into(), "60".into(), "--max-ebn0".into(), "62".into(), "--step-ebn0".into(), "1".into(),
            "--frame-errors".into(), target.to_string(), "--bch-max-errors".into(), t.to_string(), "--output-file".into(), fa.clone(), "--output-file-ldpc".into(), fb.clone(),
        ];
        let det = || J::obj().set("args", format!("{:?}", argv)).set("h", format!("{}x{}", h.rows, h.cols)).set("bch_max_errors", t).set("target_frame_errors", target);
        if !set_affinity(&[0]) {
            l.inconclusive("sched_setaffinity failed: worker count not under control");
            return;
        }
        l.eval();
        let args = match ldpc_toolbox::cli::ber::Args::<CliScripted>::try_parse_from(&argv) {
            Ok(a) => a,
            Err(e) => {
                l.violation("the ber front end does not accept a valid argument set", det().set("error", e.to_string()));
                return;
            }
        };
        let res = guard(|| args.run().map_err(|e| e.to_string()));
        match res {
            Err(p) => {
                l.violation(format!("the ber front end panicked: {}", panic_class(&p)), det().set("panic", p));
                return;
            }
            Ok(Err(e)) => {
                l.violation("the ber front end fails for a valid configuration", det().set("error", e));
                return;
            }
            Ok(Ok(())) => {}
        }
        let (ta, tb) = (std::fs::read_to_string(&fa).unwrap_or_default(), std::fs::read_to_string(&fb).unwrap_or_default());
        let (ra, rb) = (parse_result_rows(&ta), parse_result_rows(&tb));
        for f in [&apath, &fa, &fb] {
            let _ = std::fs::remove_file(f);
        }
        if ra.len() != 3 || rb.len() != 3 {
            l.violation("a result file does not have one row per requested Eb/N0", det().set("rows_main_file", ra.len()).set("rows_ldpc_only_file", rb.len()).set("main_file", ta.chars().take(1500).collect::<String>()));
            return;
        }
        let log = sh.log.lock().unwrap().clone();
        for p in 0..3 {
            let frames: usize = ra[p][1].parse().unwrap_or(usize::MAX);
            let recs: Vec<&FrameRec> = log.iter().filter(|r| r.worker == p).collect();
            if frames > recs.len() || rb[p][1] != ra[p][1] {
                l.violation("the frame counts of the two result files disagree with each other or exceed the frames simulated", det().set("point", p).set("main_row", format!("{:?}", ra[p])).set("ldpc_row", format!("{:?}", rb[p])).set("frames_simulated_by_this_worker", recs.len()));
                return;
            }
            let used = &recs[..frames];
            let ldpc_bits: u64 = used.iter().map(|r| r.e as u64).sum();
            let ldpc_fe = used.iter().filter(|r| r.e > 0).count() as u64;
            let bch_bits: u64 = used.iter().filter(|r| r.e as u64 > t).map(|r| r.e as u64).sum();
            let bch_fe = used.iter().filter(|r| r.e as u64 > t).count() as u64;
            let fd = used.iter().filter(|r| r.success && r.e > 0).count() as u64;
            let want_a = [frames as u64, bch_bits, bch_fe, fd];
            let want_b = [frames as u64, ldpc_bits, ldpc_fe, fd];
            for (file, row, want) in [("LDPC+BCH result file", &ra[p], want_a), ("LDPC-only result file", &rb[p], want_b)] {
                let got: Vec<u64> = (1..=4).map(|i| row[i].parse().unwrap_or(u64::MAX)).collect();
                l.eval();
                if got != want {
                    l.violation(
                        format!("{}: a row does not carry the statistics of the frames the point consumed", file),
                        det().set("point", p).set("is_last_point", p == 2).set("row", format!("{:?}", row)).set("columns", "frames, bit errors, frame errors, false decodes").set("got", got).set("expected", want.to_vec()),
                    );
                    return;
                }
            }
            if bch_fe != target {
                l.violation("a point did not stop exactly at the required number of frame errors (front end run)", det().set("point", p).set("frame_errors_after_outer_code", bch_fe));
                return;
            }
            if ldpc_fe > bch_fe {
                let mut d = Dig::new();
                d.s("cliber").u(script.seed).u(p as u64);
                l.nt(d.get());
            }
        }
        l.count("front_end_runs_with_both_result_files");
        l.sample(|| det().set("main_rows", format!("{:?}", ra)).set("ldpc_only_rows", format!("{:?}", rb)));
    });
}

pub fn run(run: &mut Run) {
    if run.leg.as_deref().map(|x| x.starts_with("cliber")).unwrap_or(false) {
        cli_ber_one(run);
        return;
    }
    run.rule = "the real BerTest engine driven through the public DecoderFactory with a scripted decoder (unique 44-bit iteration code per frame, scripted bit errors on the systematic part, success flag, heavy-tailed delays before returning) at Eb/N0 = 60 dB and a zero-interval Reporter; offline checker: successive report differences identify the consumed frames through their unique codes (multi-frame steps resolved by search over the workers' next unconsumed frames); required: no invention, no duplication, per-worker FIFO, every counter = sum over the consumed set (frames, systematic bit errors, frame errors, false decodes, total and correct-frame iterations, outer-code threshold accounting), ratios = stated ratios, stop exactly at the error target by a frame that incremented it, returned vector = last report of each point in order, exactly one 'finished' at the end, all decoders dropped and no decode begun after run() returned; worker count 1..16 through sched_setaffinity around BerTest::new in three modes (restored / W cpus / one cpu); failure injection: puncturing not dividing n, interleaver columns or 8PSK not fitting (stage panics in every worker), decoder panics in some / all workers; all workers stalling simultaneously for 6.5 s (2.5 .. 35 s in thorough) in the middle of a point; the last decoders taking 20..150 ms to build while the first workers already deliver thousands of instant frames (workers far ahead of the collector); runs with a one-hour Reporter interval (every point still gets its final statistics, equal to the returned ones, also when consecutive points end after the same number of frames); non-trivial = a run with >= 2 workers whose consumption order is not sorted by worker id (distinct by digest of the consumed worker-id sequence), and every failure-injection scenario".into();
    run.assumptions = vec![
        "a propagated panic out of run() counts as terminated in the partial-failure scenario (decoder panics in some workers)".into(),
        "wall-clock watchdog of 60 s per scenario only bounds how long we look; scenarios take milliseconds".into(),
    ];
    let miri = cfg!(miri);
    let n = if miri { 3 } else { run.tier.n(480, 12_000) };
    run.sub_seq("normal-runs", n, move |l, idx, rng| {
        if HUNG.load(Ordering::SeqCst) {
            return;
        }
        let h = small_h(rng);
        let k = h.cols - h.rows;
        let workers = if cfg!(miri) { 2 } else { 1 + (idx as usize % 16) };
        let mut script = base_script(rng, k);
        let bch = if rng.chance(0.4) { rng.range(1, 3) as u64 } else { 0 };
        if bch > 0 {
            script.max_e = (bch as usize + 2).min(k);
        }
        let npoints = if cfg!(miri) { 1 } else { rng.range(1, 3) };
        let p = Params {
            workers,
            affinity_mode: (idx / 16 % 3) as u8,
            target: if cfg!(miri) { 2 } else { rng.range(1, 50) as u64 },
            bch,
            ebn0s: (0..npoints).map(|i| 60.0 + i as f32).collect(),
            script,
            puncture: if rng.chance(0.3) && h.cols % 4 == 0 { Some(vec![true, true, true, false]) } else { None },
            interleave: None,
            psk8: false,
            report_interval_ms: 0,
            kind: "normal",
            h,
        };
        let o = run_scenario(&p);
        judge(l, &p, &o, "ok");
        if idx < 2 {
            l.sample(|| {
                params_json(&p)
                    .set("first_frames", J::A(o.log.iter().take(5).map(|r| J::S(format!("worker {} u={} e={} success={} code={}", r.worker, r.u, r.e, r.success, r.code))).collect()))
                    .set("reports", o.reports.len())
                    .set("frames_produced", o.log.len())
            });
        }
    });
    // the same kind of scenarios, four at a time: CPU contention between independent BER runs perturbs the
    // schedules further (the monitors of a scenario only use its own logs and counters)
    if !miri {
        let nc = run.tier.n(160, 4000);
        run.sub_threads("normal-runs-contended", nc, 4, move |l, idx, rng| {
            if HUNG.load(Ordering::SeqCst) {
                return;
            }
            let h = small_h(rng);
            let k = h.cols - h.rows;
            let mut script = base_script(rng, k);
            let bch = if rng.chance(0.4) { rng.range(1, 3) as u64 } else { 0 };
            if bch > 0 {
                script.max_e = (bch as usize + 2).min(k);
            }
            let p = Params {
                workers: 2 + rng.below(15),
                affinity_mode: 0,
                target: rng.range(1, 40) as u64,
                bch,
                ebn0s: vec![60.0],
                script,
                puncture: None,
                interleave: None,
                psk8: false,
                report_interval_ms: 0,
                kind: "normal (contended)",
                h,
            };
            let _ = idx;
            let o = run_scenario(&p);
            judge(l, &p, &o, "ok");
        });
    }
    // no result for several seconds: every worker stalls at the same time, then all continue; the point must
    // still run until the error target is met (a collector that gives up waiting would stop early)
    if !miri {
        let stall_ms: Vec<u64> = if run.tier == crate::ctx::Tier::Thorough { vec![2500, 7000, 12_000, 35_000] } else { vec![6500] };
        run.sub_seq("all-workers-stall", stall_ms.len() as u64, move |l, idx, rng| {
            if HUNG.load(Ordering::SeqCst) {
                return;
            }
            let h = small_h(rng);
            let k = h.cols - h.rows;
            let mut script = base_script(rng, k);
            script.p_err = 1.0;
            script.delays = false;
            script.stall = Some((rng.range(5, 40) as u64, stall_ms[idx as usize]));
            let p = Params {
                workers: 2 + rng.below(6),
                affinity_mode: 0,
                target: 200,
                bch: 0,
                ebn0s: vec![60.0],
                script,
                puncture: None,
                interleave: None,
                psk8: false,
                report_interval_ms: 0,
                kind: "normal (all workers stall for seconds)",
                h,
            };
            let o = run_scenario(&p);
            judge(l, &p, &o, "ok");
            let mut d = Dig::new();
            d.s("stall").u(idx);
            l.nt(d.get());
        });
    }
    // workers far ahead of the collector: the last decoders take a while to build while the first workers already
    // produce thousands of instant frames; the point needs only a few of them, everything else is discarded, and the
    // run must still join every worker (a worker blocked while handing over a result could never be told to stop)
    if !miri {
        let nfa = run.tier.n(3, 24);
        run.sub_seq("workers-far-ahead", nfa, move |l, idx, rng| {
            if HUNG.load(Ordering::SeqCst) {
                return;
            }
            let h = small_h(rng);
            let k = h.cols - h.rows;
            let mut script = base_script(rng, k);
            script.p_err = 1.0;
            script.delays = false;
            let workers = 3 + rng.below(6);
            script.slow_build = Some((workers - 1 - rng.below(2), [20u64, 60, 150][idx as usize % 3]));
            let p = Params {
                workers,
                affinity_mode: 0,
                target: rng.range(1, 3) as u64,
                bch: 0,
                ebn0s: vec![60.0, 61.0],
                script,
                puncture: None,
                interleave: None,
                psk8: false,
                report_interval_ms: 0,
                kind: "normal (workers thousands of frames ahead of the collector)",
                h,
            };
            let o = run_scenario(&p);
            judge(l, &p, &o, "ok");
            let mut d = Dig::new();
            d.s("far-ahead").u(idx);
            l.nt(d.get());
        });
    }
    // sparse reports: a Reporter with a long interval only hears about a point when it ends; every point must
    // still get its final statistics (also when consecutive points end after the same number of frames), in order,
    // equal to what run() returns, and 'finished' comes last
    {
        let nsp = if miri { 1 } else { run.tier.n(24, 400) };
        run.sub_seq("sparse-reports", nsp, move |l, idx, rng| {
            if HUNG.load(Ordering::SeqCst) {
                return;
            }
            let h = small_h(rng);
            let k = h.cols - h.rows;
            let mut script = base_script(rng, k);
            // every frame is an error frame in two cases out of three: all points then end after exactly `target` frames
            script.p_err = if idx % 3 == 2 { 0.5 } else { 1.0 };
            script.delays = idx % 2 == 0;
            let npoints = rng.range(2, 4);
            let p = Params {
                workers: if cfg!(miri) { 2 } else { 1 + rng.below(6) },
                affinity_mode: 0,
                target: rng.range(1, 6) as u64,
                bch: 0,
                ebn0s: (0..npoints).map(|i| 60.0 + i as f32).collect(),
                script,
                puncture: None,
                interleave: None,
                psk8: false,
                report_interval_ms: 3_600_000,
                kind: "normal (reporter interval of one hour)",
                h,
            };
            let o = run_scenario(&p);
            l.eval();
            let pj = || params_json(&p).set("reports", o.reports.len());
            if o.result.is_none() && o.panicked.is_none() {
                l.violation(format!("BerTest::run did not return ({}): the run hangs", p.kind), pj());
                HUNG.store(true, Ordering::SeqCst);
                return;
            }
            let stats = match (&o.result, &o.panicked) {
                (Some(Ok(s)), None) => s.clone(),
                _ => {
                    l.violation("BER run fails or panics for a valid configuration (reporter interval of one hour)", pj().set("result", format!("{:?}", o.result.as_ref().map(|r| r.as_ref().map(|_| ()))).chars().take(200).collect::<String>()));
                    return;
                }
            };
            // last Statistics report seen for each point, in order of arrival
            let mut last: Vec<Option<Statistics>> = vec![None; p.ebn0s.len()];
            let mut order_ok = true;
            let mut cur = 0usize;
            let mut finished_at: Vec<usize> = Vec::new();
            for (i, r) in o.reports.iter().enumerate() {
                match r {
                    Report::Statistics(st) => match p.ebn0s.iter().position(|&e| e == st.ebn0_db) {
                        Some(ix) => {
                            if ix < cur {
                                order_ok = false;
                            }
                            cur = ix;
                            last[ix] = Some(st.clone());
                        }
                        None => order_ok = false,
                    },
                    Report::Finished => finished_at.push(i),
                }
            }
            let key = |s: &Statistics| (s.num_frames, s.ldpc.bit_errors, s.ldpc.frame_errors, s.false_decodes, s.total_iterations);
            if stats.len() != p.ebn0s.len() {
                l.violation("run() does not return one statistics record per Eb/N0", pj().set("returned", stats.len()));
            } else if let Some(ix) = (0..last.len()).find(|&ix| last[ix].is_none()) {
                l.violation(
                    "no statistics were reported for an Eb/N0 point (reporter with a long interval)",
                    pj().set("point_without_report", ix).set("frames_of_each_point", stats.iter().map(|s| s.num_frames).collect::<Vec<_>>()),
                );
            } else if let Some(ix) = (0..last.len()).find(|&ix| key(last[ix].as_ref().unwrap()) != key(&stats[ix])) {
                l.violation("the last report of a point is not the statistics run() returns for it (reporter with a long interval)", pj().set("point", ix));
            } else if !order_ok {
                l.violation("reports of different Eb/N0 points arrive out of order (reporter with a long interval)", pj());
            } else if finished_at != vec![o.reports.len() - 1] {
                l.violation("'finished' is not delivered exactly once, after the last statistics (reporter with a long interval)", pj().set("finished_at", finished_at.iter().map(|&x| x as u64).collect::<Vec<_>>()));
            } else {
                l.count("runs_with_sparse_reports");
                if stats.windows(2).any(|w| w[0].num_frames == w[1].num_frames) {
                    l.count("runs_with_consecutive_points_of_equal_length");
                }
                let mut d = Dig::new();
                d.s("sparse").u(idx).u(p.script.seed);
                l.nt(d.get());
            }
        });
    }
    let nf = if miri { 2 } else { run.tier.n(96, 1600) };
    run.sub_seq("fault-injection", nf, move |l, idx, rng| {
        if HUNG.load(Ordering::SeqCst) {
            l.count("scenarios_skipped_after_a_hang");
            return;
        }
        let h = small_h(rng);
        let k = h.cols - h.rows;
        let workers = if cfg!(miri) { 2 } else { 1 + rng.below(16) };
        let mut script = base_script(rng, k);
        let mut p = Params {
            workers,
            affinity_mode: 0,
            target: rng.range(1, 10) as u64,
            bch: 0,
            ebn0s: vec![60.0],
            script: script.clone(),
            puncture: None,
            interleave: None,
            psk8: false,
            report_interval_ms: 0,
            kind: "fault",
            h: h.clone(),
        };
        let kind = if cfg!(miri) { [1u64, 4][idx as usize % 2] } else { idx % 6 };
        match kind {
            0 => {
                // puncturing pattern whose length does not divide n_cw: the stage returns an error
                let len = (2..=7).find(|l| h.cols % l != 0).unwrap_or(5);
                let mut pat = vec![true; len];
                pat[len - 1] = false;
                p.puncture = Some(pat);
                p.kind = "fault: puncturing pattern does not divide the codeword length";
                let o = run_scenario(&p);
                judge(l, &p, &o, "err");
            }
            1 => {
                // interleaver columns not dividing the frame: the stage panics in every worker
                let c = (2..=7).find(|c| h.cols % c != 0).unwrap_or(5) as isize;
                p.interleave = Some(if rng.coin() { c } else { -c });
                p.kind = "fault: interleaver columns do not divide the frame length";
                let o = run_scenario(&p);
                judge(l, &p, &o, "err");
            }
            2 => {
                // 8PSK with a frame length that is not a multiple of 3
                let hh = if h.cols % 3 == 0 {
                    // puncture to a non-multiple of 3 if possible, else use another code
                    Mat::new(2, 4, vec![(0, 0), (0, 1), (0, 2), (1, 1), (1, 2), (1, 3)], "2x4")
                } else {
                    h.clone()
                };
                p.h = hh;
                p.psk8 = true;
                p.kind = "fault: 8PSK symbol size does not divide the frame length";
                let o = run_scenario(&p);
                judge(l, &p, &o, "err");
            }
            3 => {
                // decoder panics in some workers only
                let nb = workers.max(1);
                if nb == 1 {
                    script.panic_all = true;
                } else {
                    let m = rng.range(1, nb - 1);
                    script.panic_at = rng.choose(nb, m).into_iter().map(|w| (w, 0u64)).collect();
                    for x in script.panic_at.iter_mut() {
                        x.1 = rng.range(0, 3) as u64;
                    }
                }
                script.p_err = 0.5;
                p.script = script;
                p.target = rng.range(3, 20) as u64;
                p.kind = "fault: decoder panics in some workers";
                let o = run_scenario(&p);
                judge(l, &p, &o, "terminates");
            }
            4 => {
                script.panic_all = true;
                p.script = script;
                p.kind = "fault: decoder panics in every worker";
                let o = run_scenario(&p);
                judge(l, &p, &o, "err");
            }
            _ => {
                // a failed first worker while the others are slow (joins must still cover everybody)
                script.panic_at = vec![(0, 0)];
                script.delays = true;
                script.p_err = 1.0;
                p.script = script;
                p.target = rng.range(2, 6) as u64;
                p.kind = "fault: first worker panics at once, others keep running";
                let o = run_scenario(&p);
                judge(l, &p, &o, "terminates");
            }
        }
        let mut d = Dig::new();
        d.u(kind).u(idx);
        l.nt(d.get());
    });
    let _ = guard(|| ());
}
