//! One module per property.

use crate::ctx::Run;

pub mod c01;
pub mod c02;
pub mod c03;
pub mod c04;
pub mod c05;
pub mod c06;
pub mod c07;
pub mod c08;
pub mod c09;
pub mod c10;
pub mod c11;
pub mod c12;
pub mod c13;
pub mod c14;
pub mod c15;
pub mod c16;
pub mod c17;
pub mod c18;
pub mod c19;
pub mod c20;

pub fn dispatch(run: &mut Run, extra: &[String]) -> bool {
    match run.prop.as_str() {
        "C01" => c01::run(run),
        "C02" => c02::run(run),
        "C03" => c03::run(run),
        "C04" => c04::run(run),
        "C05" => c05::run(run),
        "C06" => c06::run(run, extra),
        "C07" => c07::run(run, extra),
        "C08" => c08::run(run),
        "C09" => c09::run(run),
        "C10" => c10::run(run),
        "C11" => c11::run(run),
        "C12" => c12::run(run),
        "C13" => c13::run(run),
        "C14" => c14::run(run),
        "C15" => c15::run(run),
        "C16" => c16::run(run),
        "C17" => c17::run(run),
        "C18" => c18::run(run),
        "C19" => c19::run(run, extra),
        "C20" => c20::run(run),
        _ => return false,
    }
    true
}
