# Sanitizer / interpreter legs, sourced by /verif/check (variables: ID TIER SEED TARGET LEGS HARNESS; functions run_leg, miri_leg).
# Each leg writes $LEGS/<ID>.<name>.log (+ .status); the native run integrates them.

tsan_build() {
    local log=$TARGET/build-tsan.log
    (cd "$HARNESS" && RUSTFLAGS="-Zsanitizer=thread" CARGO_TARGET_DIR=$TARGET/tsan cargo +nightly build --release --offline -Zbuild-std --target x86_64-unknown-linux-gnu >"$log" 2>&1)
}
tsan_leg() {
    # tsan_leg <name> <timeout> <lv args...>
    local name=$1 tmo=$2
    shift 2
    if tsan_build; then
        run_leg "$name" "$tmo" env TSAN_OPTIONS="halt_on_error=0 second_deadlock_stack=1 exitcode=0 suppressions=$VERIF/check.d/tsan.supp" LV_THREADS=4 \
            "$TARGET/tsan/x86_64-unknown-linux-gnu/release/lv" "$@" --leg "$name"
    else
        echo "tsan build failed (see $TARGET/build-tsan.log)" >"$LEGS/$ID.$name.log"
        echo 125 >"$LEGS/$ID.$name.log.status"
        LEGARGS="${LEGARGS:+$LEGARGS,}$name=$LEGS/$ID.$name.log"
    fi
}

# -Zmiri-deterministic-floats: Miri otherwise perturbs tanh/exp/ln results by random ulps on purpose, so two runs of
# the same float decoder (C handle vs fresh Rust decoder) may legitimately differ - not a property violation
MIRI_BASE="-Zmiri-disable-isolation -Zmiri-deterministic-floats"

# "unchecked" leg for every property: the quick workload once more against the library built the way an
# optimised user build is (no overflow checks, no debug assertions); release and debug can flip verdicts
unchecked_leg() {
    if build_fast; then
        run_leg unchecked 900 "$TARGET/harness/fast/lv" "$ID" --tier quick --seed "$SEED" --leg unchecked
    else
        echo "unchecked build failed (see $TARGET/build-fast.log)" >"$LEGS/$ID.unchecked.log"
        echo 125 >"$LEGS/$ID.unchecked.log.status"
        LEGARGS="${LEGARGS:+$LEGARGS,}unchecked=$LEGS/$ID.unchecked.log"
    fi
}
case "$ID" in
C[0-9][0-9]) unchecked_leg ;;
esac
case "$ID" in
C02 | C08 | C09 | C11 | C17)
    # pure code on ndarray / Vec paths: cheap completeness leg, thorough tier only
    if [ "$TIER" = thorough ]; then
        miri_leg miri 1500 "$MIRI_BASE" "$ID" --tier quick --seed "$SEED"
    fi
    ;;
C15)
    # unsafe assume_init path of the puncturer: Miri in both tiers
    miri_leg miri 1500 "$MIRI_BASE" C15 --tier quick --seed "$SEED"
    ;;
C12)
    if [ "$TIER" = thorough ]; then
        miri_leg miri 1800 "$MIRI_BASE -Zmiri-num-cpus=2" C12 --tier quick --seed "$SEED"
    fi
    ;;
C13)
    # data races, UB and DEADLOCK detection under Miri's seeded scheduler
    if [ "$TIER" = thorough ]; then
        miri_leg miri 3000 "$MIRI_BASE -Zmiri-num-cpus=3 -Zmiri-many-seeds=0..32" C13 --tier quick --seed "$SEED"
        tsan_leg tsan 1800 C13 --tier quick --seed "$SEED"
    else
        miri_leg miri 1200 "$MIRI_BASE -Zmiri-num-cpus=2 -Zmiri-many-seeds=0..4" C13 --tier quick --seed "$SEED"
        tsan_leg tsan 900 C13 --tier quick --seed "$SEED"
    fi
    # the `ber` front end (result files): it can run once per process (it registers a Ctrl-C handler), so every
    # scenario is its own process
    if [ "$TIER" = thorough ]; then NCLI=16; else NCLI=4; fi
    for i in $(seq 1 $NCLI); do
        run_leg "cliber$i" 300 "$NATIVE" C13 --tier quick --seed "$((SEED * 1000 + i))" --leg "cliber$i"
    done
    ;;
C16)
    if [ "$TIER" = thorough ]; then
        # Tree Borrows: crossbeam-epoch 0.9.18 (inside rayon) violates the experimental Stacked Borrows rules
        # in its own list code (container_of pattern), which would stop the interpreter before the search is exercised
        miri_leg miri 1800 "$MIRI_BASE -Zmiri-tree-borrows -Zmiri-num-cpus=2" C16 --tier quick --seed "$SEED"
        tsan_leg tsan 1800 C16 --tier quick --seed "$SEED"
    fi
    ;;
C19)
    miri_leg miri 1800 "$MIRI_BASE" C19 --tier quick --seed "$SEED"
    run_leg cdriver-asan 900 "$VERIF/check.d/cdriver.sh" asan "$TIER" "$SEED"
    run_leg cdriver-valgrind 1800 "$VERIF/check.d/cdriver.sh" valgrind "$TIER" "$SEED"
    ;;
esac
