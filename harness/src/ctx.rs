//! Run context: sharded case execution, violation bookkeeping, known findings,
//! replay files, evidence assembly.

use crate::json::{self, J};
use crate::rng::{Rng, fnv};
use std::cell::RefCell;
use std::collections::{BTreeMap, BTreeSet, HashSet};
use std::sync::Mutex;
use std::sync::atomic::{AtomicBool, AtomicU64, Ordering};
use std::time::Instant;

pub const VERIF_DIR: &str = "/verif";

#[derive(Clone, Copy, PartialEq, Eq, Debug)]
pub enum Tier {
    Quick,
    Thorough,
}
impl Tier {
    pub fn name(self) -> &'static str {
        match self {
            Tier::Quick => "quick",
            Tier::Thorough => "thorough",
        }
    }
    /// pick a count by tier
    pub fn n(self, quick: u64, thorough: u64) -> u64 {
        match self {
            Tier::Quick => quick,
            Tier::Thorough => thorough,
        }
    }
}

#[derive(Clone, Debug)]
pub struct Violation {
    pub sub: String,
    pub sig: String,
    pub idx: u64,
    pub detail: J,
}

/// Per-thread accumulator handed to every case.
#[derive(Default)]
pub struct Local {
    pub evals: u64,
    pub nontrivial: HashSet<u64>,
    pub samples: Vec<J>,
    pub viol: Vec<Violation>,
    pub counters: BTreeMap<String, u64>,
    pub sets: BTreeMap<String, BTreeSet<String>>,
    pub maxes: BTreeMap<String, f64>,
    pub inconclusive: Vec<String>,
    pub cur_sub: String,
    pub cur_idx: u64,
    pub sample_cap: usize,
    pub nt_dropped: u64,
}

pub const NT_CAP_PER_THREAD: usize = 1_500_000;
pub const NT_CAP_TOTAL: usize = 24_000_000;

impl Local {
    pub fn eval(&mut self) {
        self.evals += 1;
    }
    pub fn evals_add(&mut self, n: u64) {
        self.evals += n;
    }
    pub fn nt(&mut self, digest: u64) {
        // bounded memory: beyond the cap the count is conservative (an undercount), which the evidence states
        if self.nontrivial.len() < NT_CAP_PER_THREAD {
            self.nontrivial.insert(digest);
        } else {
            self.nt_dropped += 1;
        }
    }
    pub fn count(&mut self, key: &str) {
        *self.counters.entry(key.to_string()).or_insert(0) += 1;
    }
    pub fn count_n(&mut self, key: &str, n: u64) {
        *self.counters.entry(key.to_string()).or_insert(0) += n;
    }
    pub fn seen(&mut self, key: &str, val: impl Into<String>) {
        let s = self.sets.entry(key.to_string()).or_default();
        if s.len() < 4096 {
            s.insert(val.into());
        }
    }
    pub fn max(&mut self, key: &str, v: f64) {
        let e = self.maxes.entry(key.to_string()).or_insert(f64::NEG_INFINITY);
        if v > *e {
            *e = v;
        }
    }
    pub fn sample(&mut self, f: impl FnOnce() -> J) {
        if self.samples.len() < self.sample_cap {
            let j = f().set("sub", self.cur_sub.clone()).set("index", self.cur_idx);
            self.samples.push(j);
        }
    }
    pub fn want_sample(&self) -> bool {
        self.samples.len() < self.sample_cap
    }
    /// Record a violation. `sig` names the failing call site and input class
    /// (used for de-duplication and for matching known findings).
    pub fn violation(&mut self, sig: impl Into<String>, detail: J) {
        if self.viol.len() < 200 {
            self.viol.push(Violation {
                sub: self.cur_sub.clone(),
                sig: sig.into(),
                idx: self.cur_idx,
                detail,
            });
        }
        self.count("violations_raw");
    }
    pub fn inconclusive(&mut self, why: impl Into<String>) {
        if self.inconclusive.len() < 50 {
            self.inconclusive.push(why.into());
        }
    }
    fn merge(&mut self, o: Local) {
        self.evals += o.evals;
        self.nt_dropped += o.nt_dropped;
        for d in o.nontrivial {
            if self.nontrivial.len() < NT_CAP_TOTAL {
                self.nontrivial.insert(d);
            } else {
                self.nt_dropped += 1;
            }
        }
        for s in o.samples {
            if self.samples.len() < 12 {
                self.samples.push(s);
            }
        }
        self.viol.extend(o.viol);
        for (k, v) in o.counters {
            *self.counters.entry(k).or_insert(0) += v;
        }
        for (k, v) in o.sets {
            self.sets.entry(k).or_default().extend(v);
        }
        for (k, v) in o.maxes {
            let e = self.maxes.entry(k).or_insert(f64::NEG_INFINITY);
            if v > *e {
                *e = v;
            }
        }
        self.inconclusive.extend(o.inconclusive);
    }
}

// ------------------------------------------------------------------ panics

thread_local! {
    static LAST_PANIC: RefCell<Option<String>> = const { RefCell::new(None) };
}
static VERBOSE_PANICS: AtomicBool = AtomicBool::new(false);

pub fn install_panic_hook() {
    if std::env::var("LV_VERBOSE").is_ok() {
        VERBOSE_PANICS.store(true, Ordering::Relaxed);
    }
    std::panic::set_hook(Box::new(|info| {
        let loc = info
            .location()
            .map(|l| format!("{}:{}", l.file(), l.line()))
            .unwrap_or_default();
        let msg = if let Some(s) = info.payload().downcast_ref::<&str>() {
            s.to_string()
        } else if let Some(s) = info.payload().downcast_ref::<String>() {
            s.clone()
        } else {
            "<non-string panic>".to_string()
        };
        let full = format!("{} @ {}", msg, loc);
        if VERBOSE_PANICS.load(Ordering::Relaxed) {
            eprintln!("panic: {}", full);
        }
        LAST_PANIC.with(|p| *p.borrow_mut() = Some(full));
    }));
}

/// Run library code, turning a panic into Err(message @ location).
pub fn guard<T>(f: impl FnOnce() -> T) -> Result<T, String> {
    match std::panic::catch_unwind(std::panic::AssertUnwindSafe(f)) {
        Ok(v) => Ok(v),
        Err(_) => Err(LAST_PANIC
            .with(|p| p.borrow_mut().take())
            .unwrap_or_else(|| "<panic>".to_string())),
    }
}

/// Strip a panic message to something stable (location in /repo, first words)
pub fn panic_class(msg: &str) -> String {
    // keep "file:line" if it is inside the repo, else the first 60 chars
    if let Some(p) = msg.rfind(" @ ") {
        let loc = &msg[p + 3..];
        let short = loc.rsplit("/repo/").next().unwrap_or(loc);
        // numbers in the message vary from input to input: normalise them
        let mut head = String::new();
        let mut in_num = false;
        for ch in msg[..p].chars().take(70) {
            if ch.is_ascii_digit() {
                if !in_num {
                    head.push('#');
                }
                in_num = true;
            } else {
                in_num = false;
                head.push(ch);
            }
        }
        format!("{} @ {}", head, short)
    } else {
        msg.chars().take(80).collect()
    }
}

// ------------------------------------------------------------------ run

pub struct ReplayReq {
    pub sub: String,
    pub idx: u64,
    /// replay the cases first..=idx one after the other on ONE thread (a failure that needs the calls made before it)
    pub first: Option<u64>,
}

pub struct Run {
    pub prop: String,
    pub tier: Tier,
    pub seed: u64,
    pub start: Instant,
    pub merged: Local,
    pub sub_stats: Vec<J>,
    pub rule: String,
    pub assumptions: Vec<String>,
    pub exhaustive: Option<bool>,
    pub extra: Vec<(String, J)>,
    pub replay: Option<ReplayReq>,
    pub threads: usize,
    /// wall-clock budget after which no new cases are started (evidence says so)
    pub budget_s: f64,
    pub leg: Option<String>,
    pub min_nontrivial: usize,
    /// distinct non-trivial cases counted by child legs (they report a count, not digests)
    pub leg_nontrivial: usize,
    /// set by the supervisor: the replay file of the reported case must replay this prefix on one thread
    pub replay_prefix_from: Option<u64>,
}

impl Run {
    pub fn new(prop: &str, tier: Tier, seed: u64) -> Run {
        let threads = std::env::var("LV_THREADS")
            .ok()
            .and_then(|s| s.parse().ok())
            .unwrap_or_else(|| std::thread::available_parallelism().map(|n| n.get()).unwrap_or(4));
        Run {
            prop: prop.to_string(),
            tier,
            seed,
            start: Instant::now(),
            merged: Local {
                sample_cap: 12,
                ..Default::default()
            },
            sub_stats: Vec::new(),
            rule: String::new(),
            assumptions: Vec::new(),
            exhaustive: None,
            extra: Vec::new(),
            replay: None,
            threads,
            budget_s: match tier {
                Tier::Quick => 150.0,
                Tier::Thorough => 1500.0,
            },
            leg: None,
            min_nontrivial: 2,
            leg_nontrivial: 0,
            replay_prefix_from: None,
        }
    }

    pub fn elapsed(&self) -> f64 {
        self.start.elapsed().as_secs_f64()
    }

    /// Run `ncases` independent cases of sub-check `name` on all cores. Every
    /// case gets its own PRNG keyed by (seed, property, name, index), so any
    /// single case can be regenerated for replay.
    pub fn sub<F>(&mut self, name: &str, ncases: u64, f: F)
    where
        F: Fn(&mut Local, u64, &mut Rng) + Sync,
    {
        self.sub_threads(name, ncases, self.threads, f)
    }

    /// Sequential variant (for sub-checks that themselves spawn threads/processes).
    pub fn sub_seq<F>(&mut self, name: &str, ncases: u64, f: F)
    where
        F: Fn(&mut Local, u64, &mut Rng) + Sync,
    {
        self.sub_threads(name, ncases, 1, f)
    }

    pub fn sub_threads<F>(&mut self, name: &str, ncases: u64, threads: usize, f: F)
    where
        F: Fn(&mut Local, u64, &mut Rng) + Sync,
    {
        let t0 = Instant::now();
        let (first, last) = match &self.replay {
            Some(r) => {
                if r.sub.replace(' ', "_") != name.replace(' ', "_") {
                    return;
                }
                (r.first.unwrap_or(r.idx).min(r.idx), r.idx + 1)
            }
            None => (0, ncases),
        };
        let threads = if self.replay.as_ref().map(|r| r.first.is_some()).unwrap_or(false) { 1 } else { threads };
        let next = AtomicU64::new(first);
        let harness_err: Mutex<Option<String>> = Mutex::new(None);
        let truncated = AtomicBool::new(false);
        let results: Mutex<Vec<Local>> = Mutex::new(Vec::new());
        let nthreads = threads.max(1).min((last - first).max(1) as usize);
        let deadline = self.budget_s;
        let start = self.start;
        let seed = self.seed;
        let prop = self.prop.clone();
        let replaying = self.replay.is_some();
        crate::abort::set_sub(name);
        // self-test of the supervisor (tools/selftest_supervisor.sh): LV_SELFTEST=spin:<sub>:<idx> | abort:<sub>:<idx>
        let selftest: Option<(String, u64)> = std::env::var("LV_SELFTEST").ok().and_then(|v| {
            let p: Vec<&str> = v.splitn(3, ':').collect();
            if p.len() == 3 && p[1] == name { Some((p[0].to_string(), p[2].parse().ok()?)) } else { None }
        });
        let slot_next = std::sync::atomic::AtomicUsize::new(0);
        std::thread::scope(|s| {
            for _ in 0..nthreads {
                s.spawn(|| {
                    crate::abort::claim_slot(slot_next.fetch_add(1, Ordering::Relaxed));
                    let mut l = Local {
                        sample_cap: 3,
                        cur_sub: name.to_string(),
                        ..Default::default()
                    };
                    loop {
                        let i = next.fetch_add(1, Ordering::Relaxed);
                        if i >= last {
                            break;
                        }
                        if !replaying && start.elapsed().as_secs_f64() > deadline {
                            truncated.store(true, Ordering::Relaxed);
                            break;
                        }
                        l.cur_idx = i;
                        let mut rng = Rng::keyed(seed, &prop, name, i);
                        crate::abort::enter_case(i);
                        if let Some((kind, at)) = &selftest {
                            if *at == i {
                                if kind == "spin" {
                                    let mut x = 0u64;
                                    loop {
                                        x = std::hint::black_box(x.wrapping_add(1));
                                    }
                                } else if kind == "abort" || (kind == "flaky" && !replaying) {
                                    std::process::abort();
                                }
                            }
                        }
                        let r = guard(|| f(&mut l, i, &mut rng));
                        crate::abort::leave_case();
                        if let Err(m) = r {
                            *harness_err.lock().unwrap() =
                                Some(format!("harness panic in {}[{}]: {}", name, i, m));
                            break;
                        }
                    }
                    results.lock().unwrap().push(l);
                });
            }
        });
        if let Some(e) = harness_err.into_inner().unwrap() {
            println!("ERROR property={} {}", self.prop, e);
            eprintln!("ERROR property={} {}", self.prop, e);
            std::process::exit(2);
        }
        let mut evals = 0;
        let mut nviol = 0;
        for l in results.into_inner().unwrap() {
            evals += l.evals;
            nviol += l.viol.len();
            self.merged.merge(l);
        }
        let done = next.load(Ordering::Relaxed).min(last) - first;
        self.sub_stats.push(
            J::obj()
                .set("sub", name)
                .set("cases_planned", ncases)
                .set("cases_run", done)
                .set("evaluations", evals)
                .set("violations_raw", nviol)
                .set("truncated_by_budget", truncated.load(Ordering::Relaxed))
                .set("wall_s", (t0.elapsed().as_secs_f64() * 100.0).round() / 100.0),
        );
        if truncated.load(Ordering::Relaxed) {
            self.merged
                .inconclusive(format!("sub-check {} stopped by the wall-clock budget after {} of {} cases", name, done, ncases));
        }
    }

    pub fn extra(&mut self, k: &str, v: impl Into<J>) {
        self.extra.push((k.to_string(), v.into()));
    }

    /// Integrate the log of a sanitizer/interpreter leg produced by the check
    /// script. `status`: exit status of the leg command, or None if not run.
    pub fn integrate_leg(&mut self, leg: &str, log_path: &str) {
        let text = match std::fs::read_to_string(log_path) {
            Ok(t) => t,
            Err(_) => {
                self.merged.inconclusive(format!("leg {}: log {} missing (leg not run)", leg, log_path));
                self.extra.push((format!("leg_{}", leg), J::obj().set("status", "not run")));
                return;
            }
        };
        let status = std::fs::read_to_string(format!("{}.status", log_path))
            .ok()
            .and_then(|s| s.trim().parse::<i32>().ok());
        let mut summary = J::obj();
        let mut summaries = Vec::new();
        let mut tool_errors: Vec<String> = Vec::new();
        let mut third_party: Vec<String> = Vec::new();
        let mut leg_viol = 0u64;
        let lines: Vec<&str> = text.lines().collect();
        for (n, line) in lines.iter().enumerate() {
            if let Some(rest) = line.strip_prefix("LEGSUMMARY ") {
                if let Ok(j) = json::parse(rest) {
                    summaries.push(j);
                }
            } else if let Some(rest) = line.strip_prefix("LEGVIOLATION ") {
                leg_viol += 1;
                if let Ok(j) = json::parse(rest) {
                    let sig = j.get("sig").and_then(|s| s.as_str()).unwrap_or("leg violation").to_string();
                    let sub = j.get("sub").and_then(|s| s.as_str()).unwrap_or(leg).to_string();
                    let idx = j.get("index").and_then(|s| s.as_u64()).unwrap_or(0);
                    self.merged.viol.push(Violation {
                        sub,
                        sig: format!("[{}] {}", leg.trim_end_matches(|c: char| c.is_ascii_digit()), sig),
                        idx,
                        detail: j,
                    });
                }
            } else if line.starts_with("error: Undefined Behavior")
                || line.starts_with("error: unsupported operation")
                || line.contains("error: the evaluated program deadlocked")
                || line.starts_with("error: the evaluated program leaked memory")
                || line.starts_with("error: memory leaked")
                || line.starts_with("error: Data race")
                || line.contains("WARNING: ThreadSanitizer")
                || line.contains("ERROR: AddressSanitizer")
                || line.contains("ERROR: LeakSanitizer")
                || line.contains("runtime error:")
                || line.contains("Invalid read of size")
                || line.contains("Invalid write of size")
                || line.contains("definitely lost:") && !line.contains("definitely lost: 0 bytes")
                || line.contains("uninitialised value")
            {
                // Miri reports carry a backtrace: a report none of whose frames is in the repository (nor in the
                // harness code that calls it) concerns third-party code only and is not a verdict on the property
                if line.starts_with("error: Undefined Behavior") || line.starts_with("error: Data race") || line.starts_with("error: unsupported operation") {
                    let mut in_repo = false;
                    let mut first_loc = String::new();
                    for l2 in lines.iter().skip(n + 1).take(400) {
                        if l2.starts_with("error:") {
                            break;
                        }
                        if l2.contains("/repo/src/") || l2.contains("harness/src/") {
                            in_repo = true;
                            break;
                        }
                        if first_loc.is_empty() && l2.trim_start().starts_with("-->") {
                            first_loc = l2.trim().to_string();
                        }
                    }
                    if !in_repo {
                        third_party.push(format!("{} {}", line.trim(), first_loc));
                        continue;
                    }
                }
                // ThreadSanitizer: the two access stacks come first, then "Location is ..." and "Thread T.. created by"
                // (whose stacks naturally name the harness). A race whose ACCESS stacks have no frame in the repository
                // or the harness lies inside a dependency (crossbeam-epoch frees memory it protects with fences, which
                // ThreadSanitizer does not model): not a verdict on the property.
                if line.contains("WARNING: ThreadSanitizer") {
                    let mut in_repo = false;
                    let mut first_frame = String::new();
                    for l2 in lines.iter().skip(n + 1).take(600) {
                        let t = l2.trim_start();
                        if t.starts_with("Thread T") || t.starts_with("Location is") || t.starts_with("SUMMARY:") || t.starts_with("Mutex M") {
                            break;
                        }
                        if l2.contains("/repo/src/") || l2.contains("harness/src/") {
                            in_repo = true;
                            break;
                        }
                        if first_frame.is_empty() && t.starts_with("#1 ") {
                            first_frame = t.split(" /").next().unwrap_or(t).to_string();
                        }
                    }
                    if !in_repo {
                        let stable: String = line.trim().split_whitespace().filter(|w| !w.starts_with("(pid=")).collect::<Vec<_>>().join(" ");
                        third_party.push(format!("{} {}", stable, first_frame));
                        continue;
                    }
                }
                // context: the first following line that names a source location
                let mut ctx = String::new();
                for l2 in lines.iter().skip(n + 1).take(40) {
                    if l2.contains("/repo/src") || l2.contains("ldpc_toolbox::") || l2.contains("ldpc_toolbox_") || l2.contains("harness/src") || l2.contains("roundtrip.c") {
                        ctx = l2.trim().to_string();
                        break;
                    }
                }
                tool_errors.push(format!("{} | {}", line.trim(), ctx));
            }
        }
        // a child that died (abort inside an extern "C" function, segfault) without delivering its summary
        let died = matches!(status, Some(134) | Some(139) | Some(132) | Some(136) | Some(135)) && summaries.is_empty();
        if died {
            let last_case = lines.iter().rev().find_map(|l| l.strip_prefix("CASE ")).unwrap_or("?").to_string();
            let panic_line = lines
                .iter()
                .find(|l| l.starts_with("panic: ") || l.contains("panicked at"))
                .map(|s| s.to_string())
                .unwrap_or_default();
            let class = crate::ctx::panic_class(panic_line.trim_start_matches("panic: "));
            self.merged.viol.push(Violation {
                sub: leg.to_string(),
                sig: format!("[{}] the process aborted inside the library (status {}): {}", leg.trim_end_matches(|c: char| c.is_ascii_digit()), status.unwrap_or(0), class),
                idx: 0,
                detail: J::obj().set("leg", leg).set("log", log_path).set("last_case", last_case).set("panic", panic_line),
            });
            leg_viol += 1;
        }
        // counts measured by the leg are part of this run's coverage
        for sm in &summaries {
            if let Some(e) = sm.get("evaluations").and_then(|x| x.as_u64()) {
                self.merged.evals += e;
            }
            // distinct cases are only added for legs whose workload runs nowhere else (the C-interface
            // children); the sanitizer / interpreter / unchecked legs re-execute (a subset of) the cases of
            // the native run under another build, which adds executions but no new distinct cases
            if leg.starts_with("capi") {
                if let Some(n) = sm.get("distinct_nontrivial").and_then(|x| x.as_u64()) {
                    self.leg_nontrivial += n as usize;
                }
            }
            if let Some(ss) = sm.get("samples").and_then(|x| x.as_arr()) {
                for x in ss {
                    if self.merged.samples.len() < 12 {
                        self.merged.samples.push(x.clone().set("observed_in_leg", leg));
                    }
                }
            }
        }
        tool_errors.sort();
        tool_errors.dedup();
        for e in &tool_errors {
            // strip addresses / numbers that vary
            let stable: String = e
                .split_whitespace()
                .filter(|w| !w.starts_with("0x") && !w.starts_with("==") && !w.contains("BuildId") && !w.ends_with(')') && !w.starts_with("(/") && !w.starts_with('#'))
                .collect::<Vec<_>>()
                .join(" ");
            self.merged.viol.push(Violation {
                sub: leg.to_string(),
                sig: format!("[{}] {}", leg.trim_end_matches(|c: char| c.is_ascii_digit()), stable.chars().take(200).collect::<String>()),
                idx: 0,
                detail: J::obj().set("leg", leg).set("log", log_path).set("report", e.clone()),
            });
        }
        third_party.sort();
        third_party.dedup();
        for t in &third_party {
            self.merged.inconclusive(format!(
                "leg {}: the tool reported a problem whose backtrace lies entirely in third-party code (no frame in /repo/src): {}",
                leg,
                t.chars().take(300).collect::<String>()
            ));
        }
        summary.put("third_party_only_reports", third_party.len());
        summary.put("status", status.map(|s| J::I(s as i64)).unwrap_or(J::Null));
        summary.put("tool_error_reports", tool_errors.len());
        summary.put("leg_violations", leg_viol);
        summary.put("log_lines", lines.len());
        if !summaries.is_empty() {
            let slim: Vec<J> = summaries
                .iter()
                .map(|sm| match sm {
                    J::O(o) => J::O(o.iter().filter(|(k, _)| k != "samples").cloned().collect()),
                    other => other.clone(),
                })
                .collect();
            summary.put("summaries", J::A(slim));
        }
        // status classification
        let ok = status == Some(0) && !summaries.is_empty();
        if !ok && tool_errors.is_empty() && leg_viol == 0 && !third_party.is_empty() {
            summary.put("verdict", "inconclusive (third-party report)");
        } else if !ok && tool_errors.is_empty() && leg_viol == 0 {
            let tail: Vec<String> = lines.iter().rev().take(5).rev().map(|s| s.to_string()).collect();
            self.merged.inconclusive(format!(
                "leg {}: exit status {:?}, {} summaries (build failure, timeout or watchdog) tail={:?}",
                leg,
                status,
                summaries.len(),
                tail
            ));
            summary.put("verdict", "inconclusive");
        } else if tool_errors.is_empty() && leg_viol == 0 {
            summary.put("verdict", "held on what was observed");
        } else {
            summary.put("verdict", "violated");
        }
        self.extra.push((format!("leg_{}", leg), summary));
    }

    fn known_findings(&self) -> Vec<(String, String)> {
        let mut v = Vec::new();
        if let Ok(t) = std::fs::read_to_string(format!("{}/KNOWN_FINDINGS.txt", VERIF_DIR)) {
            for line in t.lines() {
                let line = line.trim();
                if let Some(rest) = line.strip_prefix("known:") {
                    let rest = rest.trim();
                    // property=<ID> sig="<signature>" text
                    let mut prop = String::new();
                    let mut sig = String::new();
                    if let Some(p) = rest.strip_prefix("property=") {
                        let mut it = p.splitn(2, ' ');
                        prop = it.next().unwrap_or("").to_string();
                        let r2 = it.next().unwrap_or("");
                        if let Some(q) = r2.trim().strip_prefix("sig=\"") {
                            if let Some(e) = q.find('"') {
                                sig = q[..e].to_string();
                            }
                        }
                    }
                    if !prop.is_empty() && !sig.is_empty() {
                        v.push((prop, sig));
                    }
                }
            }
        }
        v
    }

    /// Write evidence, print verdict lines, return the exit code.
    pub fn finish(mut self) -> i32 {
        let wall = self.elapsed();
        let known = self.known_findings();
        // de-duplicate violations by signature
        let mut by_sig: BTreeMap<String, Vec<Violation>> = BTreeMap::new();
        for v in std::mem::take(&mut self.merged.viol) {
            by_sig.entry(v.sig.clone()).or_default().push(v);
        }
        if self.leg.is_some() {
            // the library's front end may have left the cursor in the middle of a line
            println!();
        }
        let mut unknown = 0usize;
        let mut known_hits = 0usize;
        let mut printed = 0usize;
        let mut viol_summ = Vec::new();
        for (sig, vs) in &by_sig {
            let is_known = known.iter().any(|(p, s)| p == &self.prop && s == sig);
            let first = vs.iter().min_by_key(|v| v.idx).unwrap();
            if is_known {
                known_hits += 1;
                println!("KNOWN-FINDING: property={} {}", self.prop, sig);
                viol_summ.push(J::obj().set("sig", sig.clone()).set("known", true).set("count", vs.len()));
                continue;
            }
            unknown += 1;
            let h = fnv(format!("{}|{}|{}", self.prop, first.sub, sig).as_bytes());
            let dir = format!("{}/replays/{}", VERIF_DIR, self.prop);
            let _ = std::fs::create_dir_all(&dir);
            let path = format!("{}/{:016x}.json", dir, h);
            let mut rep = J::obj()
                .set("property", self.prop.clone())
                .set("tier", self.tier.name())
                .set("seed", self.seed)
                .set("sub", first.sub.clone())
                .set("index", first.idx)
                .set("signature", sig.clone())
                .set("occurrences", vs.len())
                .set("detail", first.detail.clone())
                .set(
                    "replay_cmd",
                    format!("./check {} {} --replay {}", self.prop, self.tier.name(), path),
                );
            if let Some(f) = self.replay_prefix_from {
                rep.put("prefix_from", f);
            }
            if self.leg.is_none() {
                let _ = std::fs::write(&path, rep.to_string_pretty());
            }
            if printed < 20 {
                if let Some(leg) = &self.leg {
                    println!(
                        "LEGVIOLATION {}",
                        J::obj()
                            .set("leg", leg.clone())
                            .set("sub", first.sub.clone())
                            .set("index", first.idx)
                            .set("sig", sig.clone())
                            .set("detail", first.detail.clone())
                            .to_string_compact()
                    );
                } else {
                    println!("VIOLATION property={} replay={}", self.prop, path);
                    println!("  signature: {}", sig);
                    let d = first.detail.to_string_compact();
                    println!("  detail: {}", d.chars().take(600).collect::<String>());
                }
                printed += 1;
            }
            viol_summ.push(
                J::obj()
                    .set("sig", sig.clone())
                    .set("known", false)
                    .set("count", vs.len())
                    .set("replay", path),
            );
        }
        for w in &self.merged.inconclusive {
            println!("INCONCLUSIVE property={} {}", self.prop, w);
        }

        let nt = self.merged.nontrivial.len() + self.leg_nontrivial;
        let mut cov = J::obj()
            .set("evaluations", self.merged.evals)
            .set("distinct_nontrivial", nt)
            .set("rule", self.rule.clone())
            .set("samples", J::A(self.merged.samples.clone()));
        if let Some(e) = self.exhaustive {
            cov.put("exhaustive", e);
        }
        if self.merged.nt_dropped > 0 {
            cov.put(
                "distinct_nontrivial_note",
                format!("digest sets are capped ({} per worker thread and sub-check, {} in total) to bound memory; {} further non-trivial cases were not inserted, so distinct_nontrivial is a lower bound", NT_CAP_PER_THREAD, NT_CAP_TOTAL, self.merged.nt_dropped),
            );
        }
        cov.put("sub_checks", J::A(self.sub_stats.clone()));
        let mut counters = J::obj();
        for (k, v) in &self.merged.counters {
            counters.put(k, *v);
        }
        cov.put("counters", counters);
        let mut sets = J::obj();
        for (k, v) in &self.merged.sets {
            let items: Vec<J> = v.iter().take(64).map(|s| J::S(s.clone())).collect();
            sets.put(k, J::obj().set("distinct", v.len()).set("values", J::A(items)));
        }
        cov.put("distinct_observed", sets);
        let mut maxes = J::obj();
        for (k, v) in &self.merged.maxes {
            maxes.put(k, *v);
        }
        cov.put("worst_observed", maxes);
        for (k, v) in &self.extra {
            cov.put(k, v.clone());
        }
        cov.put(
            "inconclusive",
            J::A(self.merged.inconclusive.iter().map(|s| J::S(s.clone())).collect()),
        );
        cov.put("violation_signatures", J::A(viol_summ));
        cov.put("known_findings_matched", known_hits);
        cov.put("threads", self.threads);
        cov.put("longest_case_cpu_s", crate::abort::longest_case_cpu_s());

        if let Some(leg) = &self.leg {
            // leg mode: summary on stdout, no evidence file
            println!(
                "LEGSUMMARY {}",
                J::obj()
                    .set("leg", leg.clone())
                    .set("property", self.prop.clone())
                    .set("evaluations", self.merged.evals)
                    .set("distinct_nontrivial", nt)
                    .set("violations", unknown)
                    .set("sub_checks", J::A(self.sub_stats.clone()))
                    .set("samples", J::A(self.merged.samples.iter().take(4).cloned().collect()))
                    .set("counters", {
                        let mut c = J::obj();
                        for (k, v) in self.merged.counters.iter().take(400) {
                            c.put(k, *v);
                        }
                        c
                    })
                    .set("wall_s", wall)
                    .to_string_compact()
            );
            return if unknown > 0 { 1 } else { 0 };
        }

        // (a replay of a whole prefix of cases, made by the supervisor after a fatal case, is a run in its own right:
        // it writes evidence like any other)
        if self.replay.as_ref().map(|r| r.first.is_none()).unwrap_or(false) {
            println!(
                "REPLAY property={} violations={} evaluations={}",
                self.prop, unknown, self.merged.evals
            );
            return if unknown > 0 { 1 } else { 0 };
        }

        let ev = J::obj()
            .set("property_id", self.prop.clone())
            .set("tier", self.tier.name())
            .set("seed", self.seed)
            .set("level", "exploration")
            .set("coverage", cov)
            .set(
                "assumptions",
                J::A(self.assumptions.iter().map(|s| J::S(s.clone())).collect()),
            )
            .set("wall_s", (wall * 100.0).round() / 100.0)
            .set("violations", unknown);
        let dir = format!("{}/evidence", VERIF_DIR);
        let _ = std::fs::create_dir_all(&dir);
        let path = format!("{}/{}.json", dir, self.prop);
        if let Err(e) = std::fs::write(&path, ev.to_string_pretty()) {
            println!("ERROR property={} cannot write evidence: {}", self.prop, e);
            return 2;
        }
        println!(
            "RESULT property={} tier={} seed={} evaluations={} distinct_nontrivial={} violations={} known={} inconclusive={} wall_s={:.1}",
            self.prop,
            self.tier.name(),
            self.seed,
            self.merged.evals,
            nt,
            unknown,
            known_hits,
            self.merged.inconclusive.len(),
            wall
        );
        if unknown > 0 {
            return 1;
        }
        if nt < self.min_nontrivial || self.merged.evals == 0 {
            println!(
                "ERROR property={} the run observed too few non-trivial cases ({}): harness failure, not a verdict",
                self.prop, nt
            );
            return 2;
        }
        0
    }
}
