//! C05 – variable updates are exact saturating sums; 8-bit arithmetic never overflows;
//! the layered primitive equals the flooding check rule on the extrinsics.

use crate::ctx::{Local, Run, guard, panic_class};
use crate::impls::{ARITH_NAMES, has_deg1, has_jones, is_i8};
use crate::json::{J, jf, jfs};
use crate::num::Num;
use crate::oracle::{quant8, sat127};
use crate::rng::{Dig, Rng};
use crate::with_arith;
use ldpc_toolbox::decoder::arithmetic::DecoderArithmetic;
use ldpc_toolbox::decoder::{Message, SentMessage};

fn call_var<A>(a: &mut A, ch: f64, src: &[usize], vals: &[f64]) -> Result<(f64, Vec<(usize, f64)>), String>
where
    A: DecoderArithmetic,
    A::Llr: Num,
    A::VarMessage: Num,
    A::CheckMessage: Num,
{
    let msgs: Vec<Message<A::CheckMessage>> = src
        .iter()
        .zip(vals)
        .map(|(&s, &v)| Message {
            source: s,
            value: <A::CheckMessage as Num>::from_f64(v),
        })
        .collect();
    let mut out = Vec::with_capacity(msgs.len());
    let llr = guard(|| {
        a.send_var_messages(<A::Llr as Num>::from_f64(ch), &msgs, |m: SentMessage<A::VarMessage>| out.push((m.dest, m.value.to_f64())))
    })?;
    Ok((llr.to_f64(), out))
}

fn hostile_channel(rng: &mut Rng) -> f64 {
    match rng.below(16) {
        0 => f64::INFINITY,
        1 => f64::NEG_INFINITY,
        2 => f64::NAN,
        3 => -f64::NAN,
        4 => f64::MAX * rng.sign(),
        5 => 1e300 * rng.sign(),
        6 => f64::MIN_POSITIVE * rng.sign(),
        7 => 0.0,
        8 => -0.0,
        9 => rng.irange(-140, 140) as f64 / 8.0,
        10 => {
            let k = rng.irange(-130, 130) as f64;
            let x = (k + 0.5) / 8.0;
            match rng.below(3) {
                0 => x,
                1 => f64::from_bits(x.to_bits().wrapping_add(1)),
                _ => f64::from_bits(x.to_bits().wrapping_sub(1)),
            }
        }
        11 => 15.875 * rng.sign(),
        12 => f64::from_bits((15.875f64).to_bits() - 1) * rng.sign(),
        13 => f64::from_bits(rng.next_u64()),
        _ => crate::genm::hostile_scalar(rng),
    }
}

fn check_quantizer<A>(l: &mut Local, name: &str, a: &A, x: f64)
where
    A: DecoderArithmetic,
    A::Llr: Num,
{
    l.eval();
    match guard(|| a.input_llr_quantize(x)) {
        Err(p) => l.violation(
            format!("{}: input_llr_quantize panicked: {}", name, panic_class(&p)),
            J::obj().set("arithmetic", name).set("llr", jf(x)).set("panic", p),
        ),
        Ok(q) => {
            let q = q.to_f64();
            if is_i8(name) {
                let want = quant8(x) as f64;
                if q != want {
                    l.violation(
                        format!("{}: quantiser is not round(8*llr) saturated to +-127", name),
                        J::obj().set("arithmetic", name).set("llr", jf(x)).set("got", q).set("expected", want),
                    );
                }
                if q == -128.0 {
                    l.violation(format!("{}: quantiser emitted -128", name), J::obj().set("arithmetic", name).set("llr", jf(x)));
                }
            } else {
                let want = if name.ends_with("f32") { x as f32 as f64 } else { x };
                if !(q == want || (q.is_nan() && want.is_nan())) {
                    l.violation(
                        format!("{}: float quantiser is not the identity conversion", name),
                        J::obj().set("arithmetic", name).set("llr", jf(x)).set("got", q).set("expected", want),
                    );
                }
            }
        }
    }
}

/// Judge one variable-node call
fn judge_var(l: &mut Local, name: &str, ch: f64, src: &[usize], vals: &[f64], llr: f64, out: &[(usize, f64)]) -> bool {
    let d = vals.len();
    let det = |what: String| {
        J::obj()
            .set("arithmetic", name)
            .set("channel", jf(ch))
            .set("sources", src.iter().map(|&x| x as u64).collect::<Vec<_>>())
            .set("check_messages", jfs(vals))
            .set("returned_llr", llr)
            .set("emitted", J::A(out.iter().map(|&(dd, v)| J::S(format!("{}:{}", dd, v))).collect()))
            .set("what", what)
    };
    if out.len() != d {
        l.violation(format!("{}: variable node emits a wrong number of messages", name), det(format!("{} for degree {}", out.len(), d)));
        return false;
    }
    let mut dests: Vec<usize> = out.iter().map(|x| x.0).collect();
    dests.sort_unstable();
    let mut s2 = src.to_vec();
    s2.sort_unstable();
    if dests != s2 {
        l.violation(format!("{}: variable node destinations are not exactly the neighbours", name), det("dest set".into()));
        return false;
    }
    if is_i8(name) {
        let chv = ch as i64;
        let dch = if has_deg1(name) && d == 1 { chv.clamp(-116, 116) } else { chv };
        if has_deg1(name) && d == 1 && chv.abs() > 116 {
            l.count(&format!("branch:deg1clip:{}", name));
        }
        let mut t: i64 = dch + vals.iter().map(|&v| v as i64).sum::<i64>();
        if has_jones(name) {
            if t.abs() > 127 {
                l.count(&format!("branch:jones:{}", name));
            }
            t = sat127(t);
        }
        let want_llr = sat127(t);
        if t > 127 {
            l.count(&format!("branch:sat+:{}", name));
        }
        if t < -127 {
            l.count(&format!("branch:sat-:{}", name));
        }
        if llr != want_llr as f64 {
            l.violation(
                format!("{}: returned LLR is not the saturated sum of channel and check messages (degree {})", name, if d == 1 { "1" } else { ">=2" }),
                det(format!("expected {}", want_llr)),
            );
            return false;
        }
        for (j, &s) in src.iter().enumerate() {
            let o = out.iter().find(|x| x.0 == s).unwrap().1;
            let want = sat127(t - vals[j] as i64);
            if o == -128.0 {
                l.violation(format!("{}: variable message -128", name), det(format!("dest {}", s)));
                return false;
            }
            if o != want as f64 {
                l.violation(
                    format!("{}: variable message is not the saturated total minus the check's own contribution (degree {})", name, if d == 1 { "1" } else { ">=2" }),
                    det(format!("dest {} got {} expected {}", s, o, want)),
                );
                return false;
            }
        }
    } else {
        let u = if name.ends_with("f32") { <f32 as Num>::U } else { <f64 as Num>::U };
        let sumabs: f64 = ch.abs() + vals.iter().map(|v| v.abs()).sum::<f64>();
        let total: f64 = ch + vals.iter().sum::<f64>();
        let tol = (d as f64 + 2.0) * u * sumabs + f64::MIN_POSITIVE;
        if (llr - total).abs() > tol {
            l.violation(format!("{}: returned LLR is not channel + sum of check messages", name), det(format!("expected {} +- {}", total, tol)));
            return false;
        }
        for (j, &s) in src.iter().enumerate() {
            let o = out.iter().find(|x| x.0 == s).unwrap().1;
            let want = total - vals[j];
            if (o - want).abs() > tol + u * (sumabs + want.abs()) {
                l.violation(
                    format!("{}: variable message is not total minus the check's own contribution", name),
                    det(format!("dest {} got {} expected {}", s, o, want)),
                );
                return false;
            }
        }
    }
    true
}

fn gen_msgs(rng: &mut Rng, i8t: bool, f32t: bool, d: usize) -> Vec<f64> {
    let v: Vec<f64> = if i8t {
        match rng.below(6) {
            0 => (0..d).map(|_| rng.irange(-127, 127) as f64).collect(),
            1 => vec![127.0; d],
            2 => vec![-127.0; d],
            3 => (0..d).map(|i| if i % 2 == 0 { 127.0 } else { -127.0 }).collect(),
            4 => (0..d).map(|i| if i == 0 { 127.0 * rng.sign() } else { rng.irange(-3, 3) as f64 }).collect(),
            _ => (0..d).map(|_| rng.irange(-20, 20) as f64).collect(),
        }
    } else {
        match rng.below(5) {
            0 => (0..d).map(|_| rng.uniform(-30.0, 30.0)).collect(),
            1 => (0..d).map(|_| rng.logu(-20.0, 20.0) * rng.sign()).collect(),
            2 => (0..d).map(|_| if rng.coin() { 0.0 } else { rng.uniform(-1.0, 1.0) }).collect(),
            3 => (0..d).map(|i| if i == 0 { 1e25 * rng.sign() } else { rng.uniform(-2.0, 2.0) }).collect(),
            _ => (0..d).map(|_| rng.normal() * 5.0).collect(),
        }
    };
    if f32t { v.into_iter().map(|x| x as f32 as f64).collect() } else { v }
}

fn run_var<A>(l: &mut Local, name: &str, mk: &dyn Fn() -> A, rng: &mut Rng, calls: usize)
where
    A: DecoderArithmetic,
    A::Llr: Num,
    A::VarMessage: Num,
    A::CheckMessage: Num,
    A::VarLlr: Num,
{
    let i8t = is_i8(name);
    let f32t = name.ends_with("f32");
    let mut a = mk();
    for k in 0..calls {
        // quantiser on hostile channel values (any f64 for the 8-bit types, finite for floats)
        let x = hostile_channel(rng);
        if i8t || x.is_finite() {
            check_quantizer(l, name, &a, x);
        }
        // var_llr_to_llr / llr_to_var_llr / hard decision
        if i8t {
            let v = rng.irange(-127 * 9, 127 * 9);
            l.eval();
            match guard(|| a.var_llr_to_llr(<A::VarLlr as Num>::from_f64(v as f64))) {
                Ok(q) => {
                    if q.to_f64() != sat127(v) as f64 {
                        l.violation(format!("{}: var_llr_to_llr is not saturation to +-127", name), J::obj().set("arithmetic", name).set("var_llr", v).set("got", q.to_f64()));
                    }
                }
                Err(p) => l.violation(format!("{}: var_llr_to_llr panicked: {}", name, panic_class(&p)), J::obj().set("arithmetic", name).set("var_llr", v)),
            }
            let q = rng.irange(-127, 127);
            let back = a.llr_to_var_llr(<A::Llr as Num>::from_f64(q as f64)).to_f64();
            if back != q as f64 {
                l.violation(format!("{}: llr_to_var_llr is not the identity embedding", name), J::obj().set("arithmetic", name).set("llr", q).set("got", back));
            }
            let hd = a.llr_hard_decision(<A::Llr as Num>::from_f64(q as f64));
            if hd != (q <= 0) {
                l.violation(format!("{}: llr_hard_decision is not (llr <= 0)", name), J::obj().set("arithmetic", name).set("llr", q));
            }
            let vm = a.llr_to_var_message(<A::Llr as Num>::from_f64(q as f64)).to_f64();
            if vm != q as f64 {
                l.violation(format!("{}: llr_to_var_message is not the identity", name), J::obj().set("arithmetic", name).set("llr", q).set("got", vm));
            }
        }
        // variable rule
        let d = match k % 6 {
            0 => 1,
            1 => 2,
            2 => rng.range(3, 8),
            3 => rng.range(100, 200),
            _ => rng.range(1, 40),
        };
        let vals = gen_msgs(rng, i8t, f32t, d);
        let ch = if i8t {
            *rng.pick(&[127.0, -127.0, 116.0, -116.0, 117.0, -117.0, 0.0, 1.0, -1.0, 100.0, -100.0, 64.0]) + if rng.coin() { 0.0 } else { 0.0 }
        } else {
            let c = crate::genm::hostile_scalar(rng);
            if f32t { c as f32 as f64 } else { c }
        };
        let ch = if i8t && rng.coin() { rng.irange(-127, 127) as f64 } else { ch };
        let mut src = rng.choose(500, d);
        rng.shuffle(&mut src);
        l.eval();
        match call_var(&mut a, ch, &src, &vals) {
            Err(p) => {
                l.violation(
                    format!("{}: send_var_messages panicked (degree {}): {}", name, if d == 1 { "1" } else { ">=2" }, panic_class(&p)),
                    J::obj().set("arithmetic", name).set("channel", jf(ch)).set("check_messages", jfs(&vals)).set("panic", p),
                );
                a = mk();
            }
            Ok((llr, out)) => {
                let before = l.counters.iter().filter(|(k, _)| k.starts_with("branch:")).map(|(_, v)| *v).sum::<u64>();
                let ok = judge_var(l, name, ch, &src, &vals, llr, &out);
                let after = l.counters.iter().filter(|(k, _)| k.starts_with("branch:")).map(|(_, v)| *v).sum::<u64>();
                if ok && (d >= 3 || after > before) {
                    let mut dg = Dig::new();
                    dg.s(name).f(ch).fs(&vals);
                    l.nt(dg.get());
                }
                if k == 0 {
                    l.sample(|| J::obj().set("arithmetic", name).set("channel", jf(ch)).set("check_messages", jfs(&vals[..d.min(8)])).set("degree", d).set("returned_llr", llr));
                }
            }
        }
    }
}

/// exhaustive (channel, m1[, m2]) for degrees 1 and 2, 8-bit types
fn run_var_exhaustive<A>(l: &mut Local, name: &str, mk: &dyn Fn() -> A, ch: i64, deg2: bool)
where
    A: DecoderArithmetic,
    A::Llr: Num,
    A::VarMessage: Num,
    A::CheckMessage: Num,
{
    let mut a = mk();
    let mut n = 0u64;
    for m1 in -127..=127i64 {
        if !deg2 {
            l.eval();
            match call_var(&mut a, ch as f64, &[5], &[m1 as f64]) {
                Err(p) => {
                    l.violation(format!("{}: send_var_messages panicked (degree 1): {}", name, panic_class(&p)), J::obj().set("arithmetic", name).set("channel", ch).set("m1", m1).set("panic", p));
                    return;
                }
                Ok((llr, out)) => {
                    if !judge_var(l, name, ch as f64, &[5], &[m1 as f64], llr, &out) {
                        return;
                    }
                    n += 1;
                }
            }
        } else {
            for m2 in -127..=127i64 {
                l.eval();
                let vals = [m1 as f64, m2 as f64];
                match call_var(&mut a, ch as f64, &[5, 9], &vals) {
                    Err(p) => {
                        l.violation(format!("{}: send_var_messages panicked (degree >=2): {}", name, panic_class(&p)), J::obj().set("arithmetic", name).set("channel", ch).set("m", jfs(&vals)).set("panic", p));
                        return;
                    }
                    Ok((llr, out)) => {
                        if !judge_var(l, name, ch as f64, &[5, 9], &vals, llr, &out) {
                            return;
                        }
                        n += 1;
                    }
                }
            }
        }
    }
    let mut dg = Dig::new();
    dg.s(name).u(ch as u64).u(deg2 as u64);
    let base = dg.get();
    for k in 0..n.min(256) {
        l.nt(base.wrapping_add(k));
    }
    l.count_n("exhaustive_inputs", n);
}

/// Layered primitive vs the flooding rule of a FRESH object applied to the extrinsics.
fn run_layered<A>(l: &mut Local, name: &str, mk: &dyn Fn() -> A, rng: &mut Rng, rows: usize)
where
    A: DecoderArithmetic,
    A::Llr: Num,
    A::VarMessage: Num,
    A::CheckMessage: Num,
    A::VarLlr: Num,
{
    let i8t = is_i8(name);
    let f32t = name.ends_with("f32");
    let u = if f32t { <f32 as Num>::U } else { <f64 as Num>::U };
    // one long-lived object processes rows of varying degree, like a decoder does
    let mut long = mk();
    let nvars = 40;
    for k in 0..rows {
        let d = match k % 4 {
            0 => rng.range(6, 20),
            1 => rng.range(2, 3),
            _ => rng.range(2, 20),
        };
        let mut dests = rng.choose(nvars, d);
        rng.shuffle(&mut dests);
        let old: Vec<f64> = if rng.chance(0.25) { vec![0.0; d] } else { gen_msgs(rng, i8t, f32t, d) };
        let old: Vec<f64> = if i8t { old } else { old.into_iter().map(|x| x.clamp(-60.0, 60.0)).collect() };
        let vars0: Vec<f64> = (0..nvars)
            .map(|_| {
                if i8t {
                    let dv = rng.range(1, 8) as i64;
                    match rng.below(4) {
                        0 => rng.irange(-127 * (dv + 1), 127 * (dv + 1)) as f64,
                        1 => (127 * (dv + 1)) as f64 * rng.sign(),
                        2 => rng.irange(-130, 130) as f64,
                        _ => rng.irange(-20, 20) as f64,
                    }
                } else {
                    let x = match rng.below(4) {
                        0 => rng.uniform(-25.0, 25.0),
                        1 => rng.uniform(-2.0, 2.0),
                        // both zeros: -0.0 minus a zero message is an extrinsic of exactly -0.0, which `< 0.0`
                        // and a sign-bit test classify differently
                        2 => {
                            if rng.coin() {
                                0.0
                            } else {
                                -0.0
                            }
                        }
                        _ => rng.normal() * 6.0,
                    };
                    if f32t { x as f32 as f64 } else { x }
                }
            })
            .collect();
        // exact ties: hard-decision style inputs (a few distinct magnitudes, exactly representable), so that several
        // extrinsic values share the smallest magnitude and the rule has to break the tie like the flooding rule does
        let (vars0, old) = if !i8t && rng.chance(0.2) {
            let mags = [0.75, 1.5, 2.25, 3.0];
            let nm = rng.range(1, 3);
            let v: Vec<f64> = (0..nvars).map(|_| mags[rng.below(nm)] * rng.sign()).collect();
            let o: Vec<f64> = if rng.coin() { vec![0.0; d] } else { (0..d).map(|_| *rng.pick(&[0.0, 0.5, -0.5, 0.75])).collect() };
            (v, o)
        } else {
            (vars0, old)
        };
        // huge dynamic range: one weak variable among very reliable ones (its extrinsic is far below the resolution
        // of the messages the others produce: (x + m) - m != x there, so nothing may be re-derived from a sum)
        let (vars0, old) = if !i8t && rng.chance(0.06) {
            let big = if f32t { *rng.pick(&[1e9, 3e5, 1e12]) } else { *rng.pick(&[1e17, 1e9, 1e20]) };
            let mut v: Vec<f64> = (0..nvars).map(|_| big * rng.uniform(0.5, 1.0) * rng.sign()).collect();
            let weak = dests[rng.below(d)];
            v[weak] = *rng.pick(&[1.0, 0.01, 0.3]) * rng.sign();
            let v = if f32t { v.into_iter().map(|x| x as f32 as f64).collect() } else { v };
            (v, vec![0.0; d])
        } else {
            (vars0, old)
        };
        // extrinsics in the arithmetic's own precision
        let ext: Vec<f64> = (0..d)
            .map(|j| {
                let v = vars0[dests[j]];
                if i8t {
                    sat127(v as i64 - old[j] as i64) as f64
                } else if f32t {
                    (v as f32 - old[j] as f32) as f64
                } else {
                    v - old[j]
                }
            })
            .collect();
        if i8t {
            // reachable envelope: |v - old| may exceed 127 only through saturation of the extrinsic; fine
        }
        // flooding rule of a fresh object on the extrinsics (same order, source = dest id)
        let mut fresh = mk();
        let want = match crate::props::c04::call_check(&mut fresh, &dests, &ext) {
            Ok(w) => w,
            Err(p) => {
                l.violation(format!("{}: send_check_messages panicked on extrinsics: {}", name, panic_class(&p)), J::obj().set("arithmetic", name).set("extrinsics", jfs(&ext)).set("panic", p));
                continue;
            }
        };
        let mut msgs: Vec<SentMessage<A::CheckMessage>> = (0..d)
            .map(|j| SentMessage {
                dest: dests[j],
                value: <A::CheckMessage as Num>::from_f64(old[j]),
            })
            .collect();
        let mut vars: Vec<A::VarLlr> = vars0.iter().map(|&v| <A::VarLlr as Num>::from_f64(v)).collect();
        l.eval();
        let r = guard(|| long.update_check_messages_and_vars(&mut msgs, &mut vars));
        let det = |what: String, msgs: &Vec<SentMessage<A::CheckMessage>>, vars: &Vec<A::VarLlr>| {
            J::obj()
                .set("arithmetic", name)
                .set("dests", dests.iter().map(|&x| x as u64).collect::<Vec<_>>())
                .set("old_messages", jfs(&old))
                .set("vars_before", jfs(&vars0))
                .set("extrinsics", jfs(&ext))
                .set("new_messages", jfs(&msgs.iter().map(|m| m.value.to_f64()).collect::<Vec<_>>()))
                .set("flooding_rule_on_extrinsics", J::A(want.iter().map(|&(dd, v)| J::S(format!("{}:{}", dd, v))).collect()))
                .set("vars_after", jfs(&vars.iter().map(|v| v.to_f64()).collect::<Vec<_>>()))
                .set("row_index_in_sequence", k)
                .set("what", what)
        };
        if let Err(p) = r {
            l.violation(format!("{}: update_check_messages_and_vars panicked: {}", name, panic_class(&p)), det(p.clone(), &msgs, &vars));
            long = mk();
            continue;
        }
        let mut ok = true;
        for j in 0..d {
            if msgs[j].dest != dests[j] {
                l.violation(format!("{}: layered update changed a message destination", name), det(format!("position {}", j), &msgs, &vars));
                ok = false;
                break;
            }
            let newv = msgs[j].value.to_f64();
            let w = want.iter().find(|x| x.0 == dests[j]).map(|x| x.1).unwrap_or(f64::NAN);
            let mtol = if i8t { 0.0 } else { 16.0 * u * (1.0 + w.abs()) };
            if !((newv - w).abs() <= mtol) {
                l.violation(
                    format!("{}: layered check message differs from the flooding rule applied to the extrinsics", name),
                    det(format!("dest {} new {} flooding {}", dests[j], newv, w), &msgs, &vars),
                );
                ok = false;
                break;
            }
            // variable: (v - old) + new, with the UNclipped difference
            let v0 = vars0[dests[j]];
            let wantv = if i8t { (v0 as i64 - old[j] as i64 + newv as i64) as f64 } else { (v0 - old[j]) + newv };
            let vtol = if i8t { 0.0 } else { 16.0 * u * (v0.abs() + old[j].abs() + newv.abs() + 1.0) };
            let gotv = vars[dests[j]].to_f64();
            if !((gotv - wantv).abs() <= vtol) {
                l.violation(
                    format!("{}: layered variable update is not (v - old) + new", name),
                    det(format!("variable {} got {} expected {}", dests[j], gotv, wantv), &msgs, &vars),
                );
                ok = false;
                break;
            }
        }
        if ok {
            for v in 0..nvars {
                if !dests.contains(&v) && vars[v].to_f64().to_bits() != (<A::VarLlr as Num>::from_f64(vars0[v])).to_f64().to_bits() {
                    l.violation(format!("{}: layered update touched a variable not connected to the check", name), det(format!("variable {}", v), &msgs, &vars));
                    ok = false;
                    break;
                }
            }
        }
        if ok {
            let mut dg = Dig::new();
            dg.s(name).s("layered").fs(&ext).fs(&old);
            l.nt(dg.get());
            if k == 0 {
                l.sample(|| det("sample".into(), &msgs, &vars));
            }
        } else {
            long = mk();
        }
    }
}

pub fn run(run: &mut Run) {
    run.rule = "24 types; (a) quantiser on hostile f64 (inf, NaN, MAX, subnormal, every k/8 and (k+-1/2)/8 +- 1 ulp, random bit patterns) against round-half-away(8x) saturated to +-127; (b) send_var_messages with degrees 1..200 and message vectors {random, all +127, all -127, alternating, one dominant} against an integer model (Jones iff the name says Jones, clip to +-116 iff Deg1Clip and degree 1), exhaustive (channel,m1) for degree 1 in both tiers and (channel,m1,m2) for degree 2 (sampled channels in quick, all in thorough); (c) layered primitive on ONE long-lived object over rows of varying degree against the flooding rule of a FRESH object applied to the extrinsics, and v' = (v-old)+new; built with overflow-checks so wrapping is a panic; non-trivial = a saturation/clipping branch taken or degree >= 3 (branch counters per type in evidence); distinct by (type, inputs) digest".into();
    run.assumptions = vec![
        "integer model written from the names' documentation (Jones = saturate the total first; Deg1Clip = clip channel to +-116 only for degree one)".into(),
        "for the layered clause the oracle is the same type's flooding rule (the statement is a consistency statement)".into(),
    ];
    let per_type = if cfg!(miri) { 1 } else { run.tier.n(4000, 150_000) };
    let calls = if cfg!(miri) { 6 } else { 48 };
    run.sub("variable-rule", per_type * 24, move |l, idx, rng| {
        let name = ARITH_NAMES[(idx % 24) as usize];
        let dflt = (idx / 24) % 3 == 2; // a third of the objects come from Default::default()
        with_arith!(name, A, { run_var::<A>(l, name, &|| if dflt { <A as Default>::default() } else { <A>::new() }, rng, calls) }, { panic!() });
    });
    let rows = if cfg!(miri) { 5 } else { 40 };
    run.sub("layered-vs-flooding", per_type * 24, move |l, idx, rng| {
        let name = ARITH_NAMES[(idx % 24) as usize];
        let dflt = (idx / 24) % 3 == 2;
        with_arith!(name, A, { run_layered::<A>(l, name, &|| if dflt { <A as Default>::default() } else { <A>::new() }, rng, rows) }, { panic!() });
    });
    if !cfg!(miri) {
        let names8: Vec<&'static str> = ARITH_NAMES.iter().cloned().filter(|n| is_i8(n)).collect();
        let n8 = names8.len() as u64;
        let nb = names8.clone();
        run.sub("exhaustive-8bit-degree1", n8 * 255, move |l, idx, _rng| {
            let name = nb[(idx % n8) as usize];
            let ch = (idx / n8) as i64 - 127;
            with_arith!(name, A, { run_var_exhaustive::<A>(l, name, &|| <A>::new(), ch, false) }, { panic!() });
        });
        let thorough = run.tier == crate::ctx::Tier::Thorough;
        let nch: u64 = if thorough { 255 } else { 16 };
        run.sub("exhaustive-8bit-degree2", n8 * nch, move |l, idx, rng| {
            let name = names8[(idx % n8) as usize];
            let ch = if thorough { (idx / n8) as i64 - 127 } else { *rng.pick(&[127i64, -127, 126, 116, -116, 100, 64, 1, 0, -1, -64, -100, 117, -117, 27, -90]) };
            with_arith!(name, A, { run_var_exhaustive::<A>(l, name, &|| <A>::new(), ch, true) }, { panic!() });
        });
    }
}
