#!/bin/bash
# tools/mutant_matrix_par.sh <tier> <lanes> [filter]  -- validation only.
# Same as mutant_matrix.sh, but L lanes in parallel: every lane gets a private copy of /repo and of /verif
# (including the build caches) that is bind-mounted over /repo and /verif in a private mount namespace, so the
# registered commands run unmodified (absolute paths and all) and never see each other's patches.
# The real /repo and /verif are not touched while this runs, except for seeded/MATRIX*.md at the end.
set -u
TIER=${1:-quick}; L=${2:-4}; FILTER=${3:-}
OUT=/verif/seeded/MATRIX${FILTER:+.subset}.md
LIST=()
for d in /verif/seeded/C*-*m* /verif/mutants/*.diff; do
  if [[ -z "$FILTER" || "$d" =~ $FILTER ]]; then LIST+=("$d"); fi
done
echo "${#LIST[@]} changes, $L lanes"
for k in $(seq 0 $((L-1))); do
  rm -rf /tmp/${LANEP:-lane}$k; mkdir -p /tmp/${LANEP:-lane}$k
  git clone -q /repo /tmp/${LANEP:-lane}$k/repo
  rsync -a --exclude target --exclude replays /verif/ /tmp/${LANEP:-lane}$k/verif/
  cp -a /verif/target /tmp/${LANEP:-lane}$k/verif/target
  : > /tmp/${LANEP:-lane}$k/list
done
i=0
for d in "${LIST[@]}"; do echo "$d" >> /tmp/${LANEP:-lane}$((i % L))/list; i=$((i+1)); done
for k in $(seq 0 $((L-1))); do
  unshare -m bash -c "
    mount --bind /tmp/${LANEP:-lane}$k/repo /repo && mount --bind /tmp/${LANEP:-lane}$k/verif /verif || exit 2
    cd /verif
    while read -r d; do
      if [ -d \"\$d\" ]; then patch=\$d/patch.diff; name=\$(basename \$d); else patch=\$d; name=\$(basename \$d .diff); fi
      id=\${name%%-*}
      res=\$(/verif/tools/trymutant.sh \"\$patch\" \"\$id\" \"$TIER\" 2>&1)
      rc=\$(echo \"\$res\" | grep -o 'exit=[0-9]*' | tail -1)
      sig=\$(echo \"\$res\" | grep -m1 'signature:' | sed 's/.*signature: //' | cut -c1-140 | tr '|' '/')
      nsig=\$(echo \"\$res\" | grep -c 'signature:')
      echo \"\$name|\$id|\$rc|\$nsig|\$sig\" >> /verif/target/lane.out
      echo \"lane$k \$name \$rc \$sig\"
    done < /tmp/${LANEP:-lane}$k/list
  " &
done
wait
echo "| seeded change | property | caught by ($TIER) | first signature |" > $OUT.tmp
echo "|---|---|---|---|" >> $OUT.tmp
cat /tmp/${LANEP:-lane}[0-9]*/verif/target/lane.out | sort | while IFS='|' read -r name id rc nsig sig; do
  if [ "$rc" = "exit=1" ]; then verdict="yes ($nsig signatures)"; else verdict="NO ($rc)"; fi
  echo "| $name | $id | $verdict | $sig |" >> $OUT.tmp
done
mv $OUT.tmp $OUT
grep -c "| yes" $OUT; grep "| NO" $OUT
for k in $(seq 0 $((L-1))); do rm -rf /tmp/${LANEP:-lane}$k; done
