//! C07 – CCSDS AR4JA and C2 parity-check matrices conform to CCSDS 131.0-B (10 configurations, exhaustive).

use crate::ctx::{Local, Run, Tier, guard, panic_class};
use crate::genm::from_sparse;
use crate::json::J;
use crate::oracle::{BitMat, girth_bounded, matrix_digest};
use crate::props::c06::{BIN, PIN_FILE, check_encoder, load_pins, pin_of, run_cli, write_pins};
use crate::rng::{Dig, Rng};
use ldpc_toolbox::codes::ccsds::{AR4JACode, AR4JAInfoSize, AR4JARate, C2Code};
use std::sync::Mutex;

struct Spec {
    name: &'static str,
    rate: AR4JARate,
    size: AR4JAInfoSize,
    rate_s: &'static str,
    k: usize,
    m: usize,
    /// protograph degree of each block column (M columns each)
    degrees: &'static [usize],
}

fn specs() -> Vec<Spec> {
    const D12: &[usize] = &[2, 3, 1, 3, 6];
    const D23: &[usize] = &[4, 4, 2, 3, 1, 3, 6];
    const D45: &[usize] = &[4, 4, 4, 4, 4, 4, 2, 3, 1, 3, 6];
    let s = |name, rate, size, rate_s, k: usize, div: usize, degrees| Spec { name, rate, size, rate_s, k, m: k / div, degrees };
    vec![
        s("AR4JA_1_2_1024", AR4JARate::R1_2, AR4JAInfoSize::K1024, "1/2", 1024, 2, D12),
        s("AR4JA_2_3_1024", AR4JARate::R2_3, AR4JAInfoSize::K1024, "2/3", 1024, 4, D23),
        s("AR4JA_4_5_1024", AR4JARate::R4_5, AR4JAInfoSize::K1024, "4/5", 1024, 8, D45),
        s("AR4JA_1_2_4096", AR4JARate::R1_2, AR4JAInfoSize::K4096, "1/2", 4096, 2, D12),
        s("AR4JA_2_3_4096", AR4JARate::R2_3, AR4JAInfoSize::K4096, "2/3", 4096, 4, D23),
        s("AR4JA_4_5_4096", AR4JARate::R4_5, AR4JAInfoSize::K4096, "4/5", 4096, 8, D45),
        s("AR4JA_1_2_16384", AR4JARate::R1_2, AR4JAInfoSize::K16384, "1/2", 16384, 2, D12),
        s("AR4JA_2_3_16384", AR4JARate::R2_3, AR4JAInfoSize::K16384, "2/3", 16384, 4, D23),
        s("AR4JA_4_5_16384", AR4JARate::R4_5, AR4JAInfoSize::K16384, "4/5", 16384, 8, D45),
    ]
}

/// every b x b sub-block on the b-grid is a circulant: (i,j) in S => ((i+1) mod b, (j+1) mod b) in S
fn circulant_violation(rows: usize, cols: usize, e: &[(usize, usize)], b: usize) -> Option<String> {
    let set: std::collections::HashSet<(usize, usize)> = e.iter().cloned().collect();
    let _ = (rows, cols);
    for &(r, c) in e {
        let (br, bc) = (r / b, c / b);
        let r2 = br * b + (r % b + 1) % b;
        let c2 = bc * b + (c % b + 1) % b;
        if !set.contains(&(r2, c2)) {
            return Some(format!("entry ({},{}) in sub-block ({},{}) has no cyclic successor ({},{})", r, c, br, bc, r2, c2));
        }
    }
    None
}

fn check_ar4ja(l: &mut Local, sp: &Spec, pins: &Option<J>, tier: Tier, rng: &mut Rng, collected: &Mutex<Vec<(String, String)>>) {
    let name = sp.name;
    l.eval();
    let h = match guard(|| AR4JACode::new(sp.rate, sp.size).h()) {
        Err(p) => {
            l.violation(format!("{}: h() panicked: {}", name, panic_class(&p)), J::obj().set("code", name).set("panic", p));
            return;
        }
        Ok(h) => h,
    };
    let (rows, cols) = (h.num_rows(), h.num_cols());
    let m = sp.m;
    let det = |what: String| J::obj().set("code", name).set("rows", rows).set("cols", cols).set("M", m).set("what", what);
    if rows != 3 * m || cols != sp.k + 3 * m {
        l.violation(format!("{}: wrong dimensions", name), det(format!("expected {} x {}", 3 * m, sp.k + 3 * m)));
        return;
    }
    let e = from_sparse(&h);
    // M/4-circulant sub-blocks
    l.eval();
    if let Some(why) = circulant_violation(rows, cols, &e, m / 4) {
        l.violation(format!("{}: a sub-block is not an M/4-circulant", name), det(why));
        return;
    }
    // protograph block-column degrees
    l.eval();
    let mut cw = vec![0usize; cols];
    for &(_, c) in &e {
        cw[c] += 1;
    }
    if sp.degrees.len() * m != cols {
        l.violation(format!("{}: number of block columns differs from the protograph", name), det(format!("{} block columns expected", sp.degrees.len())));
        return;
    }
    for (b, &d) in sp.degrees.iter().enumerate() {
        if let Some(c) = (b * m..(b + 1) * m).find(|&c| cw[c] != d) {
            l.violation(
                format!("{}: block-column degree differs from the protograph", name),
                det(format!("column {} (block column {}) has degree {}, protograph degree {}", c, b, cw[c], d)),
            );
            return;
        }
    }
    // rank / invertible tail (bit-packed elimination); k = 16384 only in the thorough tier
    let big = sp.k == 16384;
    if !big || tier == Tier::Thorough {
        l.eval();
        let mut tail = BitMat::from_entries_cols(rows, &e, cols - rows, cols);
        let rk = tail.rank_destructive();
        if rk != rows {
            l.violation(format!("{}: the last 3M columns are not invertible", name), det(format!("rank of the tail {} of {}", rk, rows)));
            return;
        }
        l.count("tail_rank_computed");
        // (tail invertible => full row rank)
    } else {
        l.count("tail_rank_skipped_in_quick_for_k16384");
    }
    // encoder (library) for k = 1024 (and 4096 in thorough); k = 16384 would need a dense 24576 x 40960 elimination
    if sp.k == 1024 || (sp.k == 4096 && tier == Tier::Thorough) {
        check_encoder(l, name, &h, &e, false, if tier == Tier::Thorough { 8 } else { 3 }, rng);
        l.count("encoder_built");
    }
    // girth 6 for rate 1/2 k = 1024
    if name == "AR4JA_1_2_1024" || (tier == Tier::Thorough && sp.k <= 4096) {
        l.eval();
        let own = girth_bounded(rows, cols, &e, 8);
        match guard(|| h.girth()) {
            Err(p) => l.violation(format!("{}: girth() panicked: {}", name, panic_class(&p)), det(p.clone())),
            Ok(g) => {
                if name == "AR4JA_1_2_1024" && (g != Some(6) || own != Some(6)) {
                    l.violation(format!("{}: girth is not 6 as documented", name), det(format!("library {:?}, own {:?}", g, own)));
                }
                if own.is_some() && g != own {
                    l.violation(format!("{}: girth() disagrees with the harness' bounded BFS", name), det(format!("library {:?}, own {:?}", g, own)));
                }
                l.seen("girths", format!("{}: {:?}", name, g));
            }
        }
    }
    l.eval();
    let dig = matrix_digest(rows, cols, &e);
    collected.lock().unwrap().push((format!("ccsds:{}", name), dig.clone()));
    match pin_of(pins, &format!("ccsds:{}", name)) {
        None => l.inconclusive(format!("no pinned digest for {} in {}", name, PIN_FILE)),
        Some(p) => {
            if p != dig {
                l.violation(format!("{}: matrix differs from the pinned reference matrix", name), det(format!("sha256 {} expected {}", dig, p)));
            }
        }
    }
    let mut d = Dig::new();
    d.s(name).s(&dig);
    l.nt(d.get());
    l.sample(|| J::obj().set("code", name).set("rows", rows).set("cols", cols).set("M", m).set("sha256", dig.clone()).set("entries", e.len()));
}

fn check_c2(l: &mut Local, pins: &Option<J>, collected: &Mutex<Vec<(String, String)>>) {
    let name = "C2";
    l.eval();
    let h = match guard(|| C2Code::new().h()) {
        Err(p) => {
            l.violation(format!("C2: h() panicked: {}", panic_class(&p)), J::obj().set("panic", p));
            return;
        }
        Ok(h) => h,
    };
    let (rows, cols) = (h.num_rows(), h.num_cols());
    let det = |what: String| J::obj().set("code", name).set("rows", rows).set("cols", cols).set("what", what);
    if rows != 1022 || cols != 8176 {
        l.violation("C2: wrong dimensions", det("expected 1022 x 8176".into()));
        return;
    }
    let e = from_sparse(&h);
    l.eval();
    if let Some(why) = circulant_violation(rows, cols, &e, 511) {
        l.violation("C2: a 511 x 511 block is not a circulant", det(why));
        return;
    }
    // weight-2 circulants: every block has exactly 2 ones in its first row
    l.eval();
    for br in 0..2 {
        for bc in 0..16 {
            let w = e.iter().filter(|&&(r, c)| r == br * 511 && c / 511 == bc).count();
            if w != 2 {
                l.violation("C2: a block is not a weight-2 circulant", det(format!("block ({},{}) has first-row weight {}", br, bc, w)));
                return;
            }
        }
    }
    let mut rw = vec![0usize; rows];
    let mut cw = vec![0usize; cols];
    for &(r, c) in &e {
        rw[r] += 1;
        cw[c] += 1;
    }
    if rw.iter().any(|&w| w != 32) || cw.iter().any(|&w| w != 4) {
        l.violation("C2: row weight is not 32 or column weight is not 4", det("weights".into()));
        return;
    }
    l.eval();
    let rk = BitMat::from_entries(rows, cols, &e).rank();
    if rk != 1020 {
        l.violation("C2: rank is not 1020 (the code would not be (8176,7156))", det(format!("rank {}", rk)));
        return;
    }
    l.eval();
    let own = girth_bounded(rows, cols, &e, 8);
    match guard(|| h.girth()) {
        Err(p) => l.violation(format!("C2: girth() panicked: {}", panic_class(&p)), det(p.clone())),
        Ok(g) => {
            if g != Some(6) || own != Some(6) {
                l.violation("C2: girth is not 6", det(format!("library {:?}, own {:?}", g, own)));
            }
        }
    }
    l.eval();
    let dig = matrix_digest(rows, cols, &e);
    collected.lock().unwrap().push(("ccsds:C2".to_string(), dig.clone()));
    match pin_of(pins, "ccsds:C2") {
        None => l.inconclusive(format!("no pinned digest for C2 in {}", PIN_FILE)),
        Some(p) => {
            if p != dig {
                l.violation("C2: matrix differs from the pinned reference matrix", det(format!("sha256 {} expected {}", dig, p)));
            }
        }
    }
    let mut d = Dig::new();
    d.s(name).s(&dig);
    l.nt(d.get());
    l.sample(|| J::obj().set("code", name).set("rows", rows).set("cols", cols).set("rank", rk).set("sha256", dig.clone()));
}

fn check_cli(l: &mut Local, name: &str, args: &[&str], rows: usize, cols: usize, pins: &Option<J>) {
    l.eval();
    match run_cli(args, 120) {
        Err(e) => l.inconclusive(format!("cli {:?}: {}", args, e)),
        Ok((code, out, err)) => {
            if code != 0 {
                l.violation(format!("{}: command-line identifier is rejected", name), J::obj().set("args", format!("{:?}", args)).set("exit", code).set("stderr", err.chars().take(300).collect::<String>()));
                return;
            }
            match crate::props::c08::strict_parse(&out, true) {
                Err(why) => l.violation(format!("{}: command-line output is not a well-formed alist", name), J::obj().set("args", format!("{:?}", args)).set("why", why)),
                Ok((r, c, e)) => {
                    if r != rows || c != cols {
                        l.violation(format!("{}: command-line identifier yields a matrix of the wrong dimensions", name), J::obj().set("args", format!("{:?}", args)).set("got", format!("{} x {}", r, c)));
                        return;
                    }
                    let dig = matrix_digest(r, c, &e);
                    if let Some(p) = pin_of(pins, &format!("ccsds:{}", name)) {
                        if p != dig {
                            l.violation(format!("{}: command-line identifier yields a matrix different from the pinned reference", name), J::obj().set("args", format!("{:?}", args)).set("sha256", dig));
                        }
                    }
                }
            }
        }
    }
}


pub fn run(run: &mut Run, extra: &[String]) {
    run.rule = "EXHAUSTIVE over the 9 (rate, k) AR4JA codes and C2: size 3M x (k+3M) with M = k/2, k/4, k/8; every (M/4)x(M/4) sub-block circulant; protograph block-column degrees ([2,3,1,3,6] plus 4s; punctured block 6); invertible last 3M columns by own bit-packed elimination (hence full row rank; k=16384 in thorough only); Encoder::from_h + encode + syndrome for k=1024 (and 4096 in thorough); girth 6 for r1/2 k=1024 by own bounded BFS and girth(); C2: 1022 x 8176, 2x16 weight-2 511-circulants, row weight 32, column weight 4, rank exactly 1020, girth 6; SHA-256 pins for all ten, also through the real binary's ccsds / ccsds-c2 subcommands; all 100 ordered pairs of codes constructed back to back on one fresh thread; h() called inside rayon pools of 3/6/12 threads and inside a parallel iterator; the binary also run with a size-limited output file (exit 0 must mean complete output); every configuration is non-trivial".into();
    run.exhaustive = Some(true);
    run.assumptions = vec![
        "M table and protograph degrees are the harness author's transcription of CCSDS 131.0-B; pins are regression digests (the Blue Book tables are not on this machine)".into(),
        "Encoder::from_h is not run for k = 16384 (dense u8 elimination of a 24576 x 40960 array); invertibility of the tail is established by the oracle instead".into(),
    ];
    let pins = load_pins();
    let sp = specs();
    let tier = run.tier;
    let collected = Mutex::new(Vec::new());
    run.sub("ar4ja", sp.len() as u64, |l, idx, rng| check_ar4ja(l, &sp[idx as usize], &pins, tier, rng, &collected));
    run.sub_seq("c2", 1, |l, _i, _rng| check_c2(l, &pins, &collected));
    // call histories (state surviving between calls): every ordered pair of the ten codes back to back on one fresh thread
    let build = |i: usize| -> ldpc_toolbox::sparse::SparseMatrix {
        if i < 9 {
            let s = &specs()[i];
            AR4JACode::new(s.rate, s.size).h()
        } else {
            C2Code::new().h()
        }
    };
    let reference: Vec<Option<ldpc_toolbox::sparse::SparseMatrix>> = (0..10).map(|i| std::thread::spawn(move || guard(move || build(i)).ok()).join().ok().flatten()).collect();
    let names: Vec<&'static str> = sp.iter().map(|s| s.name).chain(["C2"]).collect();
    // (a construction that panics on a fresh thread is already reported by the per-code sub-check above)
    let reference: Vec<ldpc_toolbox::sparse::SparseMatrix> = if reference.iter().all(|r| r.is_some()) { reference.into_iter().map(|r| r.unwrap()).collect() } else { Vec::new() };
    let npairs = if reference.is_empty() { 0 } else { 100 };
    run.sub("call-histories-ordered-pairs", npairs, |l, idx, _rng| {
        let (a, b) = (idx as usize / 10, idx as usize % 10);
        l.eval();
        let res = std::thread::spawn(move || guard(move || (build(a), build(b)))).join();
        match res {
            Ok(Ok((first, second))) => {
                if first != reference[a] || second != reference[b] {
                    l.violation(
                        "h() depends on which code was constructed before it on the same thread",
                        J::obj().set("first_call", names[a]).set("second_call", names[b]).set("second_result", format!("{} x {}", second.num_rows(), second.num_cols())).set("expected", format!("{} x {}", reference[b].num_rows(), reference[b].num_cols())),
                    );
                } else if a != b {
                    let mut d = Dig::new();
                    d.s("pair").u(a as u64).u(b as u64);
                    l.nt(d.get());
                }
            }
            Ok(Err(p)) => l.violation(format!("h() panicked in a call history: {}", panic_class(&p)), J::obj().set("first_call", names[a]).set("second_call", names[b]).set("panic", p)),
            Err(_) => l.inconclusive("history thread could not be joined".to_string()),
        }
    });
    if !reference.is_empty() && !cfg!(miri) {
        // the k = 16384 codes only in the thorough tier (each construction takes seconds)
        run.sub("construction-contexts", 10, |l, idx, _rng| {
            let i = idx as usize;
            if i < 9 && sp[i].k == 16384 && tier == Tier::Quick {
                return;
            }
            crate::props::c06::build_in_contexts(l, names[i], &reference[i], move || build(i));
            let mut d = Dig::new();
            d.s("ctx").u(idx);
            l.nt(d.get());
        });
    }
    if std::path::Path::new(BIN).exists() {
        run.sub("cli-identifiers", (sp.len() + 1) as u64, |l, idx, _rng| {
            if (idx as usize) < sp.len() {
                let s = &sp[idx as usize];
                let ks = s.k.to_string();
                check_cli(l, s.name, &["ccsds", "--rate", s.rate_s, "--block-size", &ks], 3 * s.m, s.k + 3 * s.m, &pins);
                if idx % 3 == 0 && !reference.is_empty() {
                    let full = reference[idx as usize].alist().len() + 1;
                    crate::props::c06::check_cli_output_fault(l, s.name, &["ccsds", "--rate", s.rate_s, "--block-size", &ks], full, &format!("c07-{}", idx));
                }
            } else {
                check_cli(l, "C2", &["ccsds-c2"], 1022, 8176, &pins);
                if !reference.is_empty() {
                    crate::props::c06::check_cli_output_fault(l, "C2", &["ccsds-c2"], reference[9].alist().len() + 1, "c07-c2");
                }
            }
        });
    } else {
        run.merged.inconclusive(format!("binary {} not built: command-line identifiers not checked", BIN));
    }
    if extra.iter().any(|a| a == "--write-pins") {
        write_pins(collected.into_inner().unwrap());
    }
}
