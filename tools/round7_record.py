#!/usr/bin/env python3
# tools/round7_record.py <log of tools/trymutant.sh runs> -- validation only, never used by a check.
# Writes seeded/MATRIX.r7.md (one row per round-7 seeded change run so far) from the log of the serial
# trymutant runs ("=== <name> (<s> s)" followed by the VIOLATION/signature/exit lines).
import re, sys, json, os
log = open(sys.argv[1]).read()
rows = []
for blk in re.split(r"^=== ", log, flags=re.M)[1:]:
    head, _, body = blk.partition("\n")
    name = head.split()[0]
    against = re.search(r"against (C\d\d)", head)
    prop = against.group(1) if against else name.split("-")[0]
    rc = re.findall(r"exit=(\d+)", body)
    sigs = re.findall(r"signature: (.*)", body)
    if not rc:
        if "VIOLATION property=" in body and sigs:
            rc = ["1"]  # exit line cut off by the 8-line cap of the log; VIOLATION lines mean exit 1
        else:
            continue
    verdict = f"yes ({len(sigs)} signatures)" if rc[-1] == "1" else f"NO (exit={rc[-1]})"
    rows.append((name, prop, verdict, (sigs[0] if sigs else "")[:140].replace("|", "/")))
out = os.path.join(os.path.dirname(__file__), "..", "seeded", "MATRIX.r7.md")
with open(out, "w") as f:
    f.write("| seeded change | property checked | caught by (quick) | first signature |\n|---|---|---|---|\n")
    for r in rows:
        f.write("| %s | %s | %s | %s |\n" % r)
print(open(out).read())
