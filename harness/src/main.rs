use lv::ctx::{ReplayReq, Run, Tier, install_panic_hook};
use lv::json;

fn usage() -> ! {
    eprintln!("usage: lv <ID> [--tier quick|thorough] [--seed N] [--replay FILE] [--leg NAME] [--legs name=log,...] [--only SUB]");
    std::process::exit(2)
}

fn main() {
    let args: Vec<String> = std::env::args().skip(1).collect();
    if args.is_empty() {
        usage();
    }
    let prop = args[0].clone();
    let mut tier = match std::env::var("VERIF_TIER").as_deref() {
        Ok("thorough") => Tier::Thorough,
        _ => Tier::Quick,
    };
    let mut seed: u64 = std::env::var("VERIF_SEED").ok().and_then(|s| s.parse().ok()).unwrap_or(1);
    let mut replay: Option<String> = None;
    let mut leg: Option<String> = None;
    let mut legs: Vec<(String, String)> = Vec::new();
    let mut extra: Vec<String> = Vec::new();
    let mut child = false;
    let mut i = 1;
    while i < args.len() {
        match args[i].as_str() {
            "--tier" => {
                i += 1;
                tier = match args.get(i).map(|s| s.as_str()) {
                    Some("quick") => Tier::Quick,
                    Some("thorough") => Tier::Thorough,
                    _ => usage(),
                };
            }
            "--seed" => {
                i += 1;
                seed = args.get(i).and_then(|s| s.parse().ok()).unwrap_or_else(|| usage());
            }
            "--replay" => {
                i += 1;
                replay = Some(args.get(i).cloned().unwrap_or_else(|| usage()));
            }
            "--leg" => {
                i += 1;
                leg = Some(args.get(i).cloned().unwrap_or_else(|| usage()));
            }
            "--legs" => {
                i += 1;
                for kv in args.get(i).cloned().unwrap_or_default().split(',') {
                    if let Some((k, v)) = kv.split_once('=') {
                        legs.push((k.to_string(), v.to_string()));
                    }
                }
            }
            "--child" => child = true,
            other => extra.push(other.to_string()),
        }
        i += 1;
    }
    // every native workload runs in a child of this process, so that a failure that kills the process
    // (allocation failure, stack overflow, double panic) still ends in a verdict
    if !child && leg.is_none() && !cfg!(miri) && std::env::var("LV_NO_SUPERVISOR").is_err() {
        std::process::exit(supervise(&args, &prop, tier, seed, replay.as_deref()));
    }
    lv::abort::install();
    install_panic_hook();
    let mut run = Run::new(&prop, tier, seed);
    run.leg = leg;
    if let Some(path) = &replay {
        let text = std::fs::read_to_string(path).unwrap_or_else(|e| {
            eprintln!("ERROR cannot read replay file {}: {}", path, e);
            std::process::exit(2)
        });
        let j = json::parse(&text).unwrap_or_else(|e| {
            eprintln!("ERROR cannot parse replay file {}: {}", path, e);
            std::process::exit(2)
        });
        let sub = j.get("sub").and_then(|s| s.as_str()).unwrap_or("").to_string();
        let idx = j.get("index").and_then(|s| s.as_u64()).unwrap_or(0);
        if let Some(s) = j.get("seed").and_then(|s| s.as_u64()) {
            run.seed = s;
        }
        if let Some(t) = j.get("tier").and_then(|s| s.as_str()) {
            run.tier = if t == "thorough" { Tier::Thorough } else { Tier::Quick };
        }
        run.replay = Some(ReplayReq { sub, idx });
    }
    if !lv::props::dispatch(&mut run, &extra) {
        eprintln!("ERROR unknown property {}", prop);
        std::process::exit(2);
    }
    for (name, log) in &legs {
        run.integrate_leg(name, log);
    }
    let code = run.finish();
    std::process::exit(code);
}

/// Run `lv <args> --child`, pass its output through, and turn a death by signal into a verdict.
fn supervise(args: &[String], prop: &str, tier: Tier, seed: u64, replay: Option<&str>) -> i32 {
    use std::io::{BufRead, BufReader};
    use std::process::{Command, Stdio};
    let exe = std::env::current_exe().expect("current_exe");
    let run_child = |extra: &[String]| -> (Option<i32>, Option<lv::abort::AbortLine>, Vec<String>) {
        let mut c = match Command::new(&exe).args(extra).arg("--child").stdin(Stdio::null()).stderr(Stdio::piped()).spawn() {
            Ok(c) => c,
            Err(e) => {
                eprintln!("ERROR cannot start the workload process: {}", e);
                return (Some(2), None, Vec::new());
            }
        };
        let err = c.stderr.take().unwrap();
        let mut abort_line = None;
        let mut tail: Vec<String> = Vec::new();
        for line in BufReader::new(err).split(b'\n') {
            let Ok(line) = line else { break };
            let line = String::from_utf8_lossy(&line).to_string();
            eprintln!("{}", line);
            if abort_line.is_none() {
                if let Some(a) = lv::abort::parse_abort_line(&line) {
                    abort_line = Some(a);
                    continue;
                }
            }
            if !line.trim().is_empty() && !line.starts_with("LV-ABORT") {
                tail.push(line);
                if tail.len() > 12 {
                    tail.remove(0);
                }
            }
        }
        let st = c.wait().ok();
        let code = st.and_then(|s| s.code());
        (code, abort_line, tail)
    };
    let (code, abort_line, tail) = run_child(args);
    match code {
        Some(c) if c != 134 && c != 139 => return c,
        _ => {}
    }
    // the workload process died from a signal
    let what = tail
        .iter()
        .rev()
        .find(|l| l.contains("memory allocation of") || l.contains("overflowed its stack") || l.contains("panicked while processing panic") || l.contains("panic in a function that cannot unwind") || l.contains("capacity overflow"))
        .cloned()
        .unwrap_or_else(|| "no message".to_string());
    let what = lv::ctx::panic_class(&what);
    let Some(a) = abort_line else {
        println!("INCONCLUSIVE property={} the workload process died from a signal (exit {:?}) without naming the case in flight: {}", prop, code, what);
        return 2;
    };
    if replay.is_some() {
        // this was the replay of a single case: it killed the process again
        println!("VIOLATION property={} replay={}", prop, replay.unwrap());
        println!("  signature: the process is killed (signal {}: {}) [{}]", a.signal, what, a.sub);
        println!("REPLAY property={} violations=1 evaluations=0", prop);
        return 1;
    }
    // replay the candidates one at a time in fresh processes; only a case that kills the process on its own counts
    let mut cands: Vec<u64> = a.own.into_iter().collect();
    for x in &a.active {
        if !cands.contains(x) {
            cands.push(*x);
        }
    }
    let dir = format!("{}/target/abort-probe", lv::ctx::VERIF_DIR);
    let _ = std::fs::create_dir_all(&dir);
    for idx in cands.iter().take(64) {
        let path = format!("{}/{}-{}-{}.json", dir, prop, std::process::id(), idx);
        let rep = json::J::obj().set("property", prop).set("tier", tier.name()).set("seed", seed).set("sub", a.sub.clone()).set("index", *idx);
        if std::fs::write(&path, rep.to_string_pretty()).is_err() {
            continue;
        }
        let probe_args: Vec<String> = vec![prop.to_string(), "--tier".into(), tier.name().into(), "--seed".into(), seed.to_string(), "--replay".into(), path.clone()];
        eprintln!("[supervisor] replaying {}[{}] alone", a.sub, idx);
        let (pc, pa, ptail) = run_child(&probe_args);
        let _ = std::fs::remove_file(&path);
        let died = !matches!(pc, Some(c) if c != 134 && c != 139);
        if died {
            let what2 = ptail
                .iter()
                .rev()
                .find(|l| l.contains("memory allocation of") || l.contains("overflowed its stack") || l.contains("panicked while processing panic") || l.contains("cannot unwind"))
                .map(|l| lv::ctx::panic_class(l))
                .unwrap_or_else(|| what.clone());
            let sig_no = pa.map(|x| x.signal).unwrap_or(a.signal);
            let mut run = Run::new(prop, tier, seed);
            run.merged.cur_sub = a.sub.clone();
            run.merged.cur_idx = *idx;
            run.merged.violation(
                format!("the process is killed (signal {}: {}) [{}]", sig_no, what2, a.sub),
                json::J::obj()
                    .set("what", "the case ends the whole process instead of returning or panicking; reproduced by replaying the case alone in a fresh process")
                    .set("stderr_tail", json::J::A(ptail.iter().map(|s| json::J::S(s.clone())).collect())),
            );
            run.assumptions.push("the workload process died from a signal; this evidence was written by the supervising process and only describes the fatal case".to_string());
            return run.finish();
        }
    }
    println!(
        "INCONCLUSIVE property={} the workload process died from a signal ({}) in {} but none of the {} cases in flight reproduces it alone",
        prop,
        what,
        a.sub,
        cands.len()
    );
    2
}
