#!/bin/bash
# tools/silence.sh <tier> <seed>...  -- runs every check at the given seeds on the unchanged tree; prints a table.
set -u
TIER=$1; shift
for seed in "$@"; do
  for id in C01 C02 C03 C04 C05 C06 C07 C08 C09 C10 C11 C12 C13 C14 C15 C16 C17 C18 C19 C20; do
    out=$(VERIF_SEED=$seed ./check $id $TIER 2>&1); rc=$?
    res=$(echo "$out" | grep -E "^RESULT" | tail -1 | sed 's/RESULT //')
    bad=$(echo "$out" | grep -cE "^(VIOLATION|KNOWN-FINDING|INCONCLUSIVE|ERROR)")
    echo "seed=$seed $id rc=$rc alarms_or_notes=$bad $res"
    [ $rc -ne 0 ] || [ $bad -ne 0 ] && echo "$out" | grep -E "^(VIOLATION|  signature|KNOWN-FINDING|INCONCLUSIVE|ERROR)" | head -5
  done
done
