//! C14 – demodulator LLRs are the exact posterior log-ratios of the constellation.

use crate::ctx::{Local, Run, guard, panic_class};
use crate::json::{J, jf};
use crate::rng::{Dig, Rng};
use ldpc_toolbox::gf2::GF2;
use ldpc_toolbox::simulation::modulation::{BpskDemodulator, BpskModulator, Demodulator, Modulator, Psk8Demodulator, Psk8Modulator};
use ndarray::{Array1, s};
use num_complex::Complex;
use num_traits::{One, Zero};

fn bits_arr(bits: &[u8]) -> Array1<GF2> {
    Array1::from_iter(bits.iter().map(|&b| if b == 1 { GF2::one() } else { GF2::zero() }))
}

/// constellation of the public 8PSK modulator: point for every (b0,b1,b2)
fn psk8_constellation() -> Result<Vec<([u8; 3], Complex<f64>)>, String> {
    let m = Psk8Modulator::new();
    let mut v = Vec::new();
    for t in 0..8u8 {
        let b = [(t >> 2) & 1, (t >> 1) & 1, t & 1];
        let sym = guard(|| m.modulate(&bits_arr(&b)))?;
        if sym.len() != 1 {
            return Err(format!("modulating 3 bits gave {} symbols", sym.len()));
        }
        v.push((b, sym[0]));
    }
    Ok(v)
}

fn lse(v: &[f64]) -> f64 {
    let m = v.iter().cloned().fold(f64::NEG_INFINITY, f64::max);
    m + v.iter().map(|x| (x - m).exp()).sum::<f64>().ln()
}

/// exact posterior LLRs for the 3 bits, computed with max-shifted log-sum-exp of -|r-s|^2/(2 sigma^2)
fn psk8_oracle(cons: &[([u8; 3], Complex<f64>)], r: Complex<f64>, sigma: f64) -> ([f64; 3], f64) {
    // metric: -|r-s|^2/(2 sigma^2) = const + <r,s>/sigma^2 - |s|^2/(2 sigma^2). The constellation has unit energy (checked
    // separately to 1e-12), so the last term is common to all symbols and is left out: keeping it would multiply the
    // last-bit differences of the eight float |s|^2 by 1/sigma^2 and drown the result for small sigma (the first
    // version of this oracle did, and was blind below sigma ~ 1e-4).
    let inv = 1.0 / (sigma * sigma);
    let (rs_re, rs_im) = (r.re * inv, r.im * inv);
    let met: Vec<f64> = cons.iter().map(|(_, s)| rs_re * s.re + rs_im * s.im).collect();
    let scale = met.iter().fold(0.0f64, |a, x| a.max(x.abs()));
    let mut out = [0.0; 3];
    for b in 0..3 {
        let z: Vec<f64> = cons.iter().zip(&met).filter(|((bits, _), _)| bits[b] == 0).map(|(_, &m)| m).collect();
        let o: Vec<f64> = cons.iter().zip(&met).filter(|((bits, _), _)| bits[b] == 1).map(|(_, &m)| m).collect();
        out[b] = lse(&z) - lse(&o);
    }
    (out, scale)
}

fn gen_sample(rng: &mut Rng, cons: &[([u8; 3], Complex<f64>)]) -> (Complex<f64>, f64) {
    let sigma = match rng.below(8) {
        0 => rng.logu(-3.0, -1.5),
        1 => rng.logu(1.0, 3.0),
        2 => *rng.pick(&[1e-3, 1e3, 1.0, 0.5, 0.02, 0.05]),
        _ => rng.logu(-1.5, 1.0),
    };
    // far samples with a proportionally large sigma (the LLRs stay O(1)..O(100)): any position in the plane is in the domain
    if rng.chance(0.08) {
        let mag = rng.logu(3.0, 100.0);
        let sigma = (mag / rng.logu(-1.0, 2.0)).sqrt();
        let r = Complex::from_polar(mag, rng.uniform(0.0, 2.0 * std::f64::consts::PI));
        return (r, sigma);
    }
    // extreme noise levels, 1e-150..1e150, with the sample scaled so that r/sigma^2 stays moderate (sigma^2 and the
    // products of r with itself then under/overflow although every quantity the LLR depends on is representable)
    if rng.chance(0.05) {
        let sigma = rng.logu(-150.0, 150.0);
        let t = rng.logu(-1.0, 1.5);
        let mag = sigma * sigma * t;
        if mag.is_finite() && mag > 1e-305 {
            return (Complex::from_polar(mag, rng.uniform(0.0, 2.0 * std::f64::consts::PI)), sigma);
        }
    }
    // samples EXACTLY on a bisector between two neighbouring points (two metrics are bit-for-bit equal there):
    // t*(1, sqrt2-1) and its images under the symmetries of the constellation, and the floats next to them
    if rng.chance(0.08) {
        let a = 2f64.sqrt() - 1.0;
        let base = [(1.0, a), (a, 1.0), (-a, 1.0), (-1.0, a), (-1.0, -a), (-a, -1.0), (a, -1.0), (1.0, -a)];
        let (x, y) = *rng.pick(&base);
        let t = *rng.pick(&[1.0, 0.5, 2.0, 0.25, 3.0, 1e-3, 1e3, 0.7071067811865476]);
        let mut re = x * t;
        let mut im = y * t;
        match rng.below(4) {
            0 => re = f64::from_bits(re.to_bits() + 1),
            1 => im = f64::from_bits(im.to_bits() + 1),
            _ => {}
        }
        let sigma = *rng.pick(&[2.0, 1.0, 0.5, 0.1, 0.02, 10.0]);
        return (Complex::new(re, im), sigma);
    }
    let r = match rng.below(8) {
        0 => {
            // exactly a constellation point (possibly scaled)
            let s = cons[rng.below(8)].1;
            s * *rng.pick(&[1.0, 0.5, 2.0, 1e-3, 1e3])
        }
        1 => {
            // on a decision boundary between neighbours (angle k*45 + 22.5) or on the axes/diagonals
            let ang = (rng.below(16) as f64) * std::f64::consts::PI / 8.0;
            Complex::from_polar(rng.logu(-3.0, 3.0), ang)
        }
        2 => Complex::new(0.0, 0.0),
        3 => Complex::from_polar(rng.logu(2.0, 3.0), rng.uniform(0.0, 2.0 * std::f64::consts::PI)), // far away
        4 => Complex::new(rng.normal() * sigma, rng.normal() * sigma) + cons[rng.below(8)].1, // realistic
        _ => Complex::from_polar(rng.logu(-3.0, 3.0), rng.uniform(0.0, 2.0 * std::f64::consts::PI)),
    };
    (r, sigma)
}

fn check_constellation(l: &mut Local) -> Option<Vec<([u8; 3], Complex<f64>)>> {
    l.eval();
    let cons = match psk8_constellation() {
        Ok(c) => c,
        Err(e) => {
            l.violation(format!("8PSK modulator failed on a single triple: {}", panic_class(&e)), J::obj().set("error", e));
            return None;
        }
    };
    // DVB-S2 Gray labelling: bits (b0 b1 b2) -> angle in degrees
    let want: [([u8; 3], f64); 8] = [
        ([0, 0, 0], 45.0),
        ([0, 0, 1], 0.0),
        ([1, 0, 1], -45.0),
        ([1, 1, 1], -90.0),
        ([0, 1, 1], -135.0),
        ([0, 1, 0], 180.0),
        ([1, 1, 0], 135.0),
        ([1, 0, 0], 90.0),
    ];
    for (bits, ang) in want {
        let s = cons.iter().find(|(b, _)| *b == bits).unwrap().1;
        let e = Complex::from_polar(1.0, ang.to_radians());
        if (s - e).norm() > 1e-12 {
            l.violation(
                "8PSK constellation is not the DVB-S2 Gray mapping with unit energy",
                J::obj().set("bits", format!("{:?}", bits)).set("got", format!("{}", s)).set("expected", format!("{}", e)),
            );
            return None;
        }
    }
    // neighbours differ in exactly one bit
    let mut by_angle: Vec<([u8; 3], f64)> = cons.iter().map(|(b, s)| (*b, s.arg())).collect();
    by_angle.sort_by(|a, b| a.1.partial_cmp(&b.1).unwrap());
    for i in 0..8 {
        let a = by_angle[i].0;
        let b = by_angle[(i + 1) % 8].0;
        let diff = (0..3).filter(|&k| a[k] != b[k]).count();
        if diff != 1 {
            l.violation("neighbouring 8PSK points differ in more than one bit", J::obj().set("a", format!("{:?}", a)).set("b", format!("{:?}", b)));
            return None;
        }
    }
    Some(cons)
}

fn hard(llr: f64) -> u8 {
    (llr <= 0.0) as u8
}

pub fn run(run: &mut Run) {
    run.rule = "BPSK: LLR vs (|r-s1|^2-|r-s0|^2)/(2 sigma^2) with s0,s1 read from the public modulator (relative 1e-13); 8PSK: LLR_b vs max-shifted log-sum-exp of <r,s>/sigma^2 over the constellation obtained from the public modulator (all 8 triples; unit energy checked separately), tolerance 1e-9(1+|L|) + 64u*max|<r,s>/sigma^2|; samples: constellation points (scaled), decision boundaries, origin, far away (|r| up to 1e3, and up to 1e100 with a proportionally large sigma), points exactly on the bisectors t*(1, sqrt2-1) and their images and 1-ulp neighbours, realistic noisy points, polar/log-uniform 1e-3..1e3; sigma log-uniform 1e-3..1e3 and (5 %) 1e-150..1e150 with r = sigma^2 * t, t in 0.1..30; whole blocks of 1000..140000 symbols (around 2^15, 2^16, 2^17 and not multiples of 256) checked symbol by symbol; constellation = DVB-S2 Gray mapping, unit energy, neighbours differ in one bit; noiseless hard decisions for random bit sequences (owned arrays and reversed/strided views) return the bits; non-trivial = sample with |r|>0 not on a symmetry axis; distinct by (r, sigma) digest".into();
    run.assumptions = vec!["|r|/sigma^2 stays below about 1e9 in every generated sample (far below the floating range)".into()];
    let n = if cfg!(miri) { 40 } else { run.tier.n(20_000_000, 600_000_000) };
    let chunk = 500u64;
    run.sub_seq("constellation", 1, |l, _i, _rng| {
        check_constellation(l);
    });
    run.sub("psk8-demodulator", n / chunk, |l, idx, rng| {
        let Ok(cons) = psk8_constellation() else { return };
        for k in 0..chunk {
            let (r, sigma) = gen_sample(rng, &cons);
            l.eval();
            let dem = Psk8Demodulator::from_noise_sigma(sigma);
            let got = match guard(|| dem.demodulate(&[r])) {
                Err(p) => {
                    l.violation(format!("8PSK demodulate panicked: {}", panic_class(&p)), J::obj().set("r", format!("{}", r)).set("sigma", jf(sigma)).set("panic", p));
                    continue;
                }
                Ok(g) => g,
            };
            if got.len() != 3 {
                l.violation("8PSK demodulator returns a wrong number of LLRs per symbol", J::obj().set("len", got.len()));
                continue;
            }
            let (want, scale) = psk8_oracle(&cons, r, sigma);
            for b in 0..3 {
                let tol = 1e-9 * (1.0 + want[b].abs()) + 64.0 * 1.1e-16 * scale;
                let err = (got[b] - want[b]).abs();
                if !(err <= tol) {
                    let regime = if scale > 500.0 { "high SNR / far sample" } else { "moderate" };
                    l.violation(
                        format!("8PSK LLR of bit {} is not the exact posterior log-ratio ({})", b, regime),
                        J::obj()
                            .set("r_re", jf(r.re))
                            .set("r_im", jf(r.im))
                            .set("sigma", jf(sigma))
                            .set("bit", b)
                            .set("got", got[b])
                            .set("expected", want[b])
                            .set("tolerance", tol),
                    );
                    break;
                }
                if want[b].abs() > 1e-300 {
                    l.max("max_rel_err_psk8", err / (1.0 + want[b].abs()));
                }
            }
            if r.norm() > 0.0 && (r.arg() * 8.0 / std::f64::consts::PI).fract().abs() > 1e-6 {
                let mut d = Dig::new();
                d.f(r.re).f(r.im).f(sigma);
                l.nt(d.get());
            }
            if idx == 0 && k < 2 {
                l.sample(|| J::obj().set("modulation", "8PSK").set("r", format!("{}", r)).set("sigma", sigma).set("llrs", format!("{:?}", got)).set("oracle", format!("{:?}", want)));
            }
        }
    });
    // long blocks (lengths around 2^15, 2^16 and not multiples of typical chunk sizes): every symbol of ONE demodulate
    // call is compared with the oracle, so a block-wise or parallel implementation cannot lose a tail
    if !cfg!(miri) {
        run.sub("psk8-long-blocks", run.tier.n(12, 200), |l, idx, rng| {
            let Ok(cons) = psk8_constellation() else { return };
            let nsym = match idx % 6 {
                0 => 32_768 + rng.range(1, 255),
                1 => 65_536 + rng.range(1, 255),
                2 => rng.range(32_768, 140_000),
                3 => 21_600,
                4 => *rng.pick(&[32_768usize, 65_536, 131_072]),
                _ => rng.range(1000, 32_767),
            };
            let sigma = rng.logu(-1.0, 0.3);
            let samples: Vec<Complex<f64>> = (0..nsym).map(|_| cons[rng.below(8)].1 + Complex::new(rng.normal() * sigma, rng.normal() * sigma)).collect();
            l.eval();
            let dem = Psk8Demodulator::from_noise_sigma(sigma);
            let got = match guard(|| dem.demodulate(&samples)) {
                Err(p) => {
                    l.violation(format!("8PSK demodulate panicked on a long block: {}", panic_class(&p)), J::obj().set("symbols", nsym).set("panic", p));
                    return;
                }
                Ok(g) => g,
            };
            if got.len() != 3 * nsym {
                l.violation("8PSK demodulator returns a wrong number of LLRs for a long block", J::obj().set("symbols", nsym).set("llrs", got.len()));
                return;
            }
            for i in 0..nsym {
                let (want, scale) = psk8_oracle(&cons, samples[i], sigma);
                for b in 0..3 {
                    let tol = 1e-9 * (1.0 + want[b].abs()) + 64.0 * 1.1e-16 * scale;
                    if !((got[3 * i + b] - want[b]).abs() <= tol) {
                        l.violation(
                            "8PSK LLR inside a long block is not the exact posterior log-ratio",
                            J::obj().set("symbols_in_block", nsym).set("symbol_index", i).set("symbols_after_it", nsym - 1 - i).set("bit", b).set("got", got[3 * i + b]).set("expected", want[b]).set("sigma", jf(sigma)),
                        );
                        return;
                    }
                }
            }
            l.evals_add(nsym as u64);
            let mut d = Dig::new();
            d.s("long").u(nsym as u64).f(sigma).f(samples[0].re);
            l.nt(d.get());
        });
    }
    run.sub("bpsk-demodulator", (n / chunk / 4).max(1), |l, idx, rng| {
        let m = BpskModulator::new();
        let s0 = m.modulate(&bits_arr(&[0]))[0];
        let s1 = m.modulate(&bits_arr(&[1]))[0];
        if idx == 0 && (s0 != -1.0 || s1 != 1.0) {
            l.violation("BPSK modulator does not map 0 -> -1, 1 -> +1", J::obj().set("s0", s0).set("s1", s1));
        }
        for k in 0..chunk {
            let sigma = if rng.chance(0.1) { rng.logu(-100.0, 100.0) } else { rng.logu(-3.0, 3.0) };
            let r = match rng.below(6) {
                0 => 0.0,
                1 => *rng.pick(&[1.0, -1.0]),
                2 => rng.logu(-300.0, 3.0) * rng.sign(),
                _ => rng.normal() * sigma.min(1e3) + *rng.pick(&[1.0, -1.0]),
            };
            if !(r.abs() / (sigma * sigma)).is_finite() || r.abs() / (sigma * sigma) > 1e150 || sigma * sigma == 0.0 || !(sigma * sigma).is_finite() {
                continue;
            }
            l.eval();
            let dem = BpskDemodulator::from_noise_sigma(sigma);
            let got = match guard(|| dem.demodulate(&[r])) {
                Err(p) => {
                    l.violation(format!("BPSK demodulate panicked: {}", panic_class(&p)), J::obj().set("r", jf(r)).set("sigma", jf(sigma)));
                    continue;
                }
                Ok(g) => g,
            };
            // (|r-s1|^2 - |r-s0|^2)/(2 s^2) = (s0-s1)(2r - s0 - s1)/(2 s^2)
            let want = (s0 - s1) * (2.0 * r - (s0 + s1)) / (2.0 * sigma * sigma);
            if got.len() != 1 || !((got[0] - want).abs() <= 1e-13 * want.abs() + f64::MIN_POSITIVE) {
                l.violation(
                    "BPSK LLR is not log(P(0|r)/P(1|r)) = -2r/sigma^2",
                    J::obj().set("r", jf(r)).set("sigma", jf(sigma)).set("got", got.first().cloned().unwrap_or(f64::NAN)).set("expected", want),
                );
                continue;
            }
            if r != 0.0 {
                let mut d = Dig::new();
                d.f(r).f(sigma);
                l.nt(d.get());
            }
            if idx == 0 && k < 1 {
                l.sample(|| J::obj().set("modulation", "BPSK").set("r", r).set("sigma", sigma).set("llr", got[0]));
            }
        }
    });
    let nseq = if cfg!(miri) { 4 } else { run.tier.n(100_000, 3_000_000) };
    run.sub("noiseless-roundtrip", nseq, |l, _idx, rng: &mut Rng| {
        let nsym = rng.range(1, 40);
        let bits: Vec<u8> = (0..3 * nsym).map(|_| rng.coin() as u8).collect();
        let sigma = rng.logu(-2.0, 1.0);
        // layouts of the input view: owned, reversed view, every-second-element view
        let layout = rng.below(3);
        let arr = match layout {
            0 => bits_arr(&bits),
            1 => {
                let rev: Vec<u8> = bits.iter().rev().cloned().collect();
                bits_arr(&rev)
            }
            _ => {
                let mut wide = Vec::with_capacity(bits.len() * 2);
                for &b in &bits {
                    wide.push(b);
                    wide.push(1 - b);
                }
                bits_arr(&wide)
            }
        };
        let lname = ["owned", "reversed view", "stride-2 view"][layout];
        for modn in ["8PSK", "BPSK"] {
            l.eval();
            let llrs: Result<Vec<f64>, String> = if modn == "8PSK" {
                guard(|| {
                    let sym = match layout {
                        0 => Psk8Modulator::new().modulate(&arr),
                        1 => Psk8Modulator::new().modulate(&arr.slice(s![..;-1])),
                        _ => Psk8Modulator::new().modulate(&arr.slice(s![..;2])),
                    };
                    Psk8Demodulator::from_noise_sigma(sigma).demodulate(&sym)
                })
            } else {
                guard(|| {
                    let sym = match layout {
                        0 => BpskModulator::new().modulate(&arr),
                        1 => BpskModulator::new().modulate(&arr.slice(s![..;-1])),
                        _ => BpskModulator::new().modulate(&arr.slice(s![..;2])),
                    };
                    BpskDemodulator::from_noise_sigma(sigma).demodulate(&sym)
                })
            };
            match llrs {
                Err(p) => l.violation(format!("{} modulate/demodulate panicked ({}): {}", modn, lname, panic_class(&p)), J::obj().set("bits", bits.clone()).set("panic", p)),
                Ok(ll) => {
                    let hd: Vec<u8> = ll.iter().map(|&x| hard(x)).collect();
                    if hd != bits {
                        l.violation(
                            format!("{}: hard decisions on noiseless modulated bits do not return the bits ({})", modn, lname),
                            J::obj().set("bits", bits.clone()).set("hard_decisions", hd).set("sigma", sigma),
                        );
                    } else {
                        let mut d = Dig::new();
                        d.s(modn).u(layout as u64);
                        for &b in &bits {
                            d.u(b as u64);
                        }
                        l.nt(d.get());
                    }
                }
            }
        }
    });
}
