//! `lv`: runtime monitors for the ldpc-toolbox properties C01..C20.
#![allow(clippy::needless_range_loop, clippy::too_many_arguments, clippy::type_complexity)]

pub mod abort;
pub mod ctx;
pub mod genm;
pub mod impls;
pub mod json;
pub mod num;
pub mod oracle;
pub mod props;
pub mod rng;
pub mod trace;
