//! C11 – girth and BFS distances are exact graph quantities.

use crate::ctx::{Local, Run, guard, panic_class};
use crate::json::J;
use crate::genm::Mat;
use crate::oracle::Graph;
use crate::rng::{Dig, Rng};
use ldpc_toolbox::sparse::Node;

fn gen_graph(rng: &mut Rng) -> Mat {
    let class = rng.below(11);
    let mut e: Vec<(usize, usize)> = Vec::new();
    let (rows, cols, fam): (usize, usize, &'static str);
    match class {
        0 => {
            let m = crate::genm::forest(rng, 8, 12);
            return Mat::new(m.rows, m.cols, m.e, "forest");
        }
        1 => {
            // a single cycle of length 2k plus pendant paths/trees
            let k = rng.range(2, 5);
            let extra_r = rng.range(0, 5);
            let extra_c = rng.range(0, 5);
            rows = k + extra_r;
            cols = k + extra_c;
            for j in 0..k {
                e.push((j, j));
                e.push((j, (j + 1) % k));
            }
            // pendant growth: attach each new node to one existing node of the other side
            let mut used_r = k;
            let mut used_c = k;
            while used_r < rows || used_c < cols {
                if used_c < cols && (used_r >= rows || rng.coin()) {
                    e.push((rng.below(used_r), used_c));
                    used_c += 1;
                } else {
                    e.push((used_r, rng.below(used_c)));
                    used_r += 1;
                }
            }
            fam = "cycle-with-pendant-trees";
        }
        2 => {
            // two cycles joined by a path
            let k1 = rng.range(2, 4);
            let k2 = rng.range(2, 4);
            let p = rng.range(1, 3);
            rows = k1 + k2 + p;
            cols = k1 + k2 + p;
            for j in 0..k1 {
                e.push((j, j));
                e.push((j, (j + 1) % k1));
            }
            for j in 0..k2 {
                e.push((k1 + j, k1 + j));
                e.push((k1 + j, k1 + (j + 1) % k2));
            }
            // path: col 0 - row a - col b - ... - col k1 (of second cycle)
            let mut prev_c = 0;
            for t in 0..p {
                let r = k1 + k2 + t;
                let c = if t + 1 == p { k1 } else { k1 + k2 + t };
                e.push((r, prev_c));
                e.push((r, c));
                prev_c = c;
            }
            fam = "two-cycles-joined";
        }
        3 => {
            rows = rng.range(1, 8);
            cols = rng.range(1, 8);
            for r in 0..rows {
                for c in 0..cols {
                    if rng.chance(0.6) {
                        e.push((r, c));
                    }
                }
            }
            fam = "dense";
        }
        4 => {
            // disconnected: block diagonal of two random blocks
            let r1 = rng.range(1, 5);
            let c1 = rng.range(1, 5);
            let r2 = rng.range(1, 5);
            let c2 = rng.range(1, 5);
            rows = r1 + r2;
            cols = c1 + c2;
            for r in 0..r1 {
                for c in 0..c1 {
                    if rng.chance(0.45) {
                        e.push((r, c));
                    }
                }
            }
            for r in 0..r2 {
                for c in 0..c2 {
                    if rng.chance(0.45) {
                        e.push((r1 + r, c1 + c));
                    }
                }
            }
            fam = "disconnected";
        }
        5 => {
            rows = rng.range(1, 5);
            cols = rng.range(1, 6);
            for r in 0..rows {
                for c in 0..cols {
                    e.push((r, c));
                }
            }
            fam = "complete";
        }
        6 => {
            // circulant with a few shifts
            let n = rng.range(3, 12);
            rows = n;
            cols = n;
            let shifts = { let kk = rng.range(2, 3); rng.choose(n, kk) };
            for r in 0..n {
                for &s in &shifts {
                    e.push((r, (r + s) % n));
                }
            }
            fam = "circulant";
        }
        7 => {
            // unicyclic: random tree plus one extra edge
            let m = crate::genm::forest(rng, 8, 10);
            let mut e2 = m.e.clone();
            for _ in 0..20 {
                let r = rng.below(m.rows);
                let c = rng.below(m.cols);
                if !e2.contains(&(r, c)) {
                    e2.push((r, c));
                    break;
                }
            }
            return Mat::new(m.rows, m.cols, e2, "forest-plus-edge");
        }
        8 => {
            // long cycle plus a chord far away and pendant paths: roots off the shortest cycle
            let k = rng.range(4, 7);
            rows = k + 2;
            cols = k + 2;
            for j in 0..k {
                e.push((j, j));
                e.push((j, (j + 1) % k));
            }
            // chord creating a shorter cycle
            let a = rng.below(k);
            e.push((a, (a + 2) % k));
            // pendant path col (a+3)%k - row k - col k - row k+1 - col k+1
            e.push((k, (a + 3) % k));
            e.push((k, k));
            e.push((k + 1, k));
            e.push((k + 1, k + 1));
            fam = "cycle-chord-pendant-path";
        }
        9 => {
            rows = rng.range(1, 14);
            cols = rng.range(1, 14);
            let w = rng.range(1, 3);
            for c in 0..cols {
                for r in rng.choose(rows, w.min(rows)) {
                    e.push((r, c));
                }
            }
            fam = "sparse-colweight";
        }
        _ => {
            rows = rng.range(1, 10);
            cols = rng.range(1, 10);
            for r in 0..rows {
                for c in 0..cols {
                    if rng.chance(0.2) {
                        e.push((r, c));
                    }
                }
            }
            fam = "sparse-random";
        }
    }
    Mat::new(rows, cols, e, fam)
}

fn cut(x: Option<usize>, b: usize) -> Option<usize> {
    x.filter(|&v| v <= b)
}

pub fn check_graph(l: &mut Local, m: &Mat, rng: &mut Rng) {
    let g = Graph::new(m.rows, m.cols, &m.e);
    let h = match rng.below(3) {
        0 => m.to_sparse(),
        1 => m.to_sparse_shuffled(rng),
        _ => m.to_sparse_bulk(rng),
    };
    let girth = g.girth();
    let mut d = Dig::new();
    d.u(m.rows as u64).u(m.cols as u64).entries(&m.e);
    let gd = d.get();
    l.count(m.family);

    // global girth
    l.eval();
    match guard(|| h.girth()) {
        Err(p) => l.violation(format!("girth() panicked: {}", panic_class(&p)), m.json().set("panic", p)),
        Ok(got) => {
            if got != girth {
                l.violation(
                    format!("girth() wrong on {} graph", m.family),
                    m.json().set("got", got).set("expected", girth),
                );
            }
        }
    }
    let top = girth.unwrap_or(6) + 3;
    let mut bounds: Vec<usize> = (0..=top).collect();
    bounds.push(usize::MAX);
    for &b in &bounds {
        l.eval();
        match guard(|| h.girth_with_max(b)) {
            Err(p) => l.violation(format!("girth_with_max panicked: {}", panic_class(&p)), m.json().set("bound", b).set("panic", p)),
            Ok(got) => {
                if got != cut(girth, b) {
                    l.violation(
                        format!("girth_with_max wrong ({})", if got.is_some() { "reports a value" } else { "reports none" }),
                        m.json().set("bound", b).set("got", got).set("expected", cut(girth, b)),
                    );
                }
            }
        }
    }
    // every root: bfs distances and local girth with all bounds
    for node_i in 0..(m.rows + m.cols) {
        let (node, name) = if node_i < m.rows {
            (Node::Row(node_i), format!("Row({})", node_i))
        } else {
            (Node::Col(node_i - m.rows), format!("Col({})", node_i - m.rows))
        };
        let dist = g.dist(node_i);
        l.eval();
        match guard(|| h.bfs(node)) {
            Err(p) => l.violation(format!("bfs panicked: {}", panic_class(&p)), m.json().set("root", name.clone()).set("panic", p)),
            Ok(res) => {
                let got: Vec<Option<usize>> = res
                    .row_nodes_distance
                    .iter()
                    .cloned()
                    .chain(res.col_nodes_distance.iter().cloned())
                    .collect();
                if res.row_nodes_distance.len() != m.rows || res.col_nodes_distance.len() != m.cols || got != dist {
                    l.violation(
                        "bfs distances differ from true shortest paths",
                        m.json().set("root", name.clone()).set("got", format!("{:?}", got)).set("expected", format!("{:?}", dist)),
                    );
                }
            }
        }
        let lg = g.local_girth(node_i);
        let on_shortest = lg.is_some() && lg == girth;
        if girth.is_some() && !on_shortest {
            let mut dd = Dig::new();
            dd.u(gd).u(node_i as u64);
            l.nt(dd.get());
        }
        l.eval();
        match guard(|| h.girth_at_node(node)) {
            Err(p) => l.violation(format!("girth_at_node panicked: {}", panic_class(&p)), m.json().set("root", name.clone()).set("panic", p)),
            Ok(got) => {
                if got != lg {
                    let class = match (got, lg) {
                        (Some(_), None) => "reports a cycle through a node that lies on none",
                        (None, Some(_)) => "misses the cycle through the node",
                        (Some(a), Some(b)) if a > b => "too long",
                        _ => "too short",
                    };
                    l.violation(
                        format!("girth_at_node wrong: {}", class),
                        m.json().set("root", name.clone()).set("got", got).set("expected", lg),
                    );
                }
            }
        }
        let top = lg.unwrap_or(girth.unwrap_or(4)) + 3;
        for b in (0..=top).chain([usize::MAX]) {
            l.eval();
            match guard(|| h.girth_at_node_with_max(node, b)) {
                Err(p) => l.violation(
                    format!("girth_at_node_with_max panicked: {}", panic_class(&p)),
                    m.json().set("root", name.clone()).set("bound", b).set("panic", p),
                ),
                Ok(got) => {
                    if got != cut(lg, b) {
                        l.violation(
                            format!("girth_at_node_with_max wrong ({})", if got.is_some() { "reports a value" } else { "reports none" }),
                            m.json().set("root", name.clone()).set("bound", b).set("got", got).set("expected", cut(lg, b)),
                        );
                    }
                }
            }
        }
    }
    l.sample(|| m.json().set("girth", girth).set("roots_checked", m.rows + m.cols));
}

/// graphs with a node of very large degree (hundreds of neighbours): the only cycle through the hub
/// leaves it through two neighbours whose positions in the adjacency list are far apart
fn high_degree_graph(rng: &mut Rng) -> Mat {
    let deg = *rng.pick(&[255usize, 256, 257, 258, 300, 511, 512, 513, 600]);
    let tall = rng.coin();
    // hub = column 0 connected to all `deg` rows (or row 0 connected to all columns when wide)
    let a = rng.below(deg);
    let mut b = (a + *rng.pick(&[1usize, 255, 256, 257, 512])) % deg;
    if b == a {
        b = (a + 1) % deg;
    }
    let mut e: Vec<(usize, usize)> = Vec::new();
    if tall {
        for r in 0..deg {
            e.push((r, 0));
        }
        // second column closes a 4-cycle through rows a and b; third column hangs off as a pendant
        e.push((a, 1));
        e.push((b, 1));
        e.push((rng.below(deg), 2));
        Mat::new(deg, 3, e, "hub-column-high-degree")
    } else {
        for c in 0..deg {
            e.push((0, c));
        }
        e.push((1, a));
        e.push((1, b));
        e.push((2, rng.below(deg)));
        Mat::new(3, deg, e, "hub-row-high-degree")
    }
}

/// like check_graph but only for a few roots (the hub, the cycle nodes, a pendant), all bounds
fn check_graph_roots(l: &mut Local, m: &Mat, roots: &[usize]) {
    let g = Graph::new(m.rows, m.cols, &m.e);
    let h = m.to_sparse();
    let girth = g.girth();
    l.eval();
    match guard(|| h.girth()) {
        Ok(got) if got == girth => {}
        Ok(got) => l.violation(format!("girth() wrong on {} graph", m.family), J::obj().set("rows", m.rows).set("cols", m.cols).set("family", m.family).set("got", got).set("expected", girth)),
        Err(p) => l.violation(format!("girth() panicked: {}", panic_class(&p)), J::obj().set("family", m.family).set("panic", p)),
    }
    for &node_i in roots {
        let (node, name) = if node_i < m.rows { (Node::Row(node_i), format!("Row({})", node_i)) } else { (Node::Col(node_i - m.rows), format!("Col({})", node_i - m.rows)) };
        let lg = g.local_girth(node_i);
        for b in [0usize, 3, 4, 5, 6, 8, usize::MAX] {
            l.eval();
            match guard(|| h.girth_at_node_with_max(node, b)) {
                Ok(got) if got == cut(lg, b) => {}
                Ok(got) => {
                    l.violation(
                        format!("girth_at_node_with_max wrong on a graph with a node of degree >= 255 ({})", if got.is_some() { "reports a value" } else { "reports none" }),
                        J::obj().set("rows", m.rows).set("cols", m.cols).set("family", m.family).set("entries_tail", crate::json::jentries(&m.e[m.e.len().saturating_sub(6)..])).set("root", name.clone()).set("bound", b).set("got", got).set("expected", cut(lg, b)),
                    );
                    return;
                }
                Err(p) => {
                    l.violation(format!("girth_at_node_with_max panicked: {}", panic_class(&p)), J::obj().set("family", m.family).set("root", name.clone()).set("panic", p));
                    return;
                }
            }
        }
        if lg.is_some() {
            let mut d = Dig::new();
            d.u(m.rows as u64).u(m.cols as u64).entries(&m.e[m.e.len() - 3..]).u(node_i as u64);
            l.nt(d.get());
        }
        // bfs distances from this root
        l.eval();
        if let Ok(res) = guard(|| h.bfs(node)) {
            let got: Vec<Option<usize>> = res.row_nodes_distance.iter().cloned().chain(res.col_nodes_distance.iter().cloned()).collect();
            if got != g.dist(node_i) {
                l.violation("bfs distances differ from true shortest paths", J::obj().set("family", m.family).set("root", name.clone()));
            }
        }
    }
}

pub fn run(run: &mut Run) {
    run.rule = "graphs up to 14x14 in 11 families plus one cycle / one path through more than 2^16 nodes per side (distances and local girths in the tens of thousands; index widths), a ring of 16 columns dragging thousands of pendant rows plus a 4-cycle queried inside rayon pools of 2/4/16 threads, and hub graphs with a node of degree 255..600 whose only cycle leaves it through adjacency-list positions a and a+{1,255,256,257,512} (forests, cycle with pendant trees, two cycles joined by a path, dense, disconnected, complete, circulant, forest+edge, cycle+chord+pendant path, sparse); for each graph ALL roots (rows and columns) and ALL bounds 0..g+3 and usize::MAX are queried and compared with a plain-BFS oracle on an explicit adjacency list (local girth = min over neighbours u of 1 + dist(u,v) without edge uv); non-trivial = (graph, root) where the graph has a cycle and the root does not lie on a shortest one".into();
    run.assumptions = vec!["oracle BFS and edge-removal local girth are written from the definitions".into()];
    let n = if cfg!(miri) { 12 } else { run.tier.n(250_000, 8_000_000) };
    run.sub("graphs", n, |l, _idx, rng| {
        let m = gen_graph(rng);
        check_graph(l, &m, rng);
    });
    let nh = if cfg!(miri) { 1 } else { run.tier.n(300, 6000) };
    run.sub("high-degree-hubs", nh, |l, _idx, rng| {
        let m = high_degree_graph(rng);
        // roots: the hub, the two nodes closing the cycle and their common neighbour, the pendant node
        let hub_is_col = m.family.starts_with("hub-column");
        let mut roots: Vec<usize> = Vec::new();
        if hub_is_col {
            roots.push(m.rows); // Col(0)
            roots.push(m.rows + 1);
            roots.push(m.rows + 2);
            for &(r, c) in &m.e {
                if c == 1 {
                    roots.push(r);
                }
            }
        } else {
            roots.push(0);
            roots.push(1);
            roots.push(2);
            for &(r, c) in &m.e {
                if r == 1 {
                    roots.push(m.rows + c);
                }
            }
        }
        check_graph_roots(l, &m, &roots);
    });
    // girth() under concurrency: if the search over the roots is ever run in parallel, a slow search with a
    // large local girth must not overwrite the short cycle found by a fast one. Witness shape: sixteen columns
    // on a long cycle, each dragging thousands of pendant rows (slow searches), and a 4-cycle among later columns.
    if !cfg!(miri) {
        let reps = run.tier.n(6, 60);
        run.sub_seq("girth-in-thread-pools", reps, |l, idx, rng| {
            let ring = 16usize;
            let pend = rng.range(1500, 4000);
            let extra = rng.range(20, 60);
            let rows = ring + ring * pend + 2;
            let cols = ring + 2 + extra;
            let mut e: Vec<(usize, usize)> = Vec::new();
            for c in 0..ring {
                e.push((c, c));
                e.push(((c + 1) % ring, c));
                for p in 0..pend {
                    e.push((ring + c * pend + p, c));
                }
            }
            let (ra, rb) = (rows - 2, rows - 1);
            let c4 = ring + rng.below(extra);
            e.extend([(ra, c4), (rb, c4), (ra, c4 + 1), (rb, c4 + 1)]);
            let m = Mat::new(rows, cols, e, "ring-with-pendants-plus-4cycle");
            let h = m.to_sparse();
            let threads = [2usize, 4, 16][(idx % 3) as usize];
            let pool = rayon::ThreadPoolBuilder::new().num_threads(threads).build().expect("pool");
            for _ in 0..4 {
                l.eval();
                let got = guard(|| pool.install(|| (h.girth(), h.girth_with_max(6), h.girth_with_max(40))));
                match got {
                    Ok((g, g6, g40)) => {
                        if g != Some(4) || g6 != Some(4) || g40 != Some(4) {
                            l.violation(
                                "girth()/girth_with_max() wrong on a large disconnected graph when called inside a thread pool",
                                J::obj().set("rows", rows).set("cols", cols).set("threads", threads).set("girth", g).set("girth_with_max_6", g6).set("girth_with_max_40", g40).set("expected", 4),
                            );
                            return;
                        }
                    }
                    Err(p) => {
                        l.violation(format!("girth() panicked: {}", panic_class(&p)), J::obj().set("rows", rows).set("cols", cols));
                        return;
                    }
                }
            }
            let mut d = Dig::new();
            d.s("pool").u(idx).u(pend as u64);
            l.nt(d.get());
        });
    }
    // graphs with more than 2^16 nodes on each side (index widths): one long cycle or one long path, plus a short
    // cycle far out; distances and local girths run into the tens of thousands
    if !cfg!(miri) {
        run.sub("long-graphs", run.tier.n(4, 40), |l, idx, rng| {
            let n = 65_537 + rng.below(3000);
            let closed = idx % 2 == 0;
            // column c joins rows c and c+1 (a path); closing it makes a cycle of length 2n
            let mut e: Vec<(usize, usize)> = Vec::new();
            for c in 0..n {
                e.push((c, c));
                if c + 1 < n {
                    e.push((c + 1, c));
                } else if closed {
                    e.push((0, c));
                }
            }
            let m = Mat::new(n, n, e, if closed { "cycle-of-2n-nodes" } else { "path-of-2n-nodes" });
            let g = Graph::new(m.rows, m.cols, &m.e);
            let h = m.to_sparse();
            for root in [0usize, n - 1, n + 65_536, n + rng.below(n), rng.below(n)] {
                let (node, name) = if root < n { (Node::Row(root), format!("Row({})", root)) } else { (Node::Col(root - n), format!("Col({})", root - n)) };
                l.eval();
                match guard(|| h.bfs(node)) {
                    Err(p) => {
                        l.violation(format!("bfs panicked on a long graph: {}", panic_class(&p)), J::obj().set("family", m.family).set("nodes_per_side", n).set("root", name.clone()));
                        return;
                    }
                    Ok(res) => {
                        let got: Vec<Option<usize>> = res.row_nodes_distance.iter().cloned().chain(res.col_nodes_distance.iter().cloned()).collect();
                        let want = g.dist(root);
                        if got != want {
                            let i = (0..got.len()).find(|&i| got[i] != want[i]).unwrap();
                            l.violation(
                                "bfs distances differ from true shortest paths (graph with more than 2^16 nodes per side)",
                                J::obj().set("family", m.family).set("nodes_per_side", n).set("root", name.clone()).set("first_wrong_node", i).set("got", got[i]).set("expected", want[i]),
                            );
                            return;
                        }
                    }
                }
                let lg = g.local_girth(root);
                for b in [6usize, 100_000, usize::MAX] {
                    l.eval();
                    match guard(|| h.girth_at_node_with_max(node, b)) {
                        Ok(got) if got == cut(lg, b) => {}
                        Ok(got) => {
                            l.violation(
                                "girth_at_node_with_max wrong on a graph with more than 2^16 nodes per side",
                                J::obj().set("family", m.family).set("nodes_per_side", n).set("root", name.clone()).set("bound", b).set("got", got).set("expected", cut(lg, b)),
                            );
                            return;
                        }
                        Err(p) => {
                            l.violation(format!("girth_at_node_with_max panicked on a long graph: {}", panic_class(&p)), J::obj().set("family", m.family).set("root", name.clone()));
                            return;
                        }
                    }
                }
            }
            l.eval();
            match guard(|| h.girth_with_max(12)) {
                Ok(None) => {}
                Ok(got) => l.violation("girth_with_max(12) reports a short cycle on a long cycle/path graph", J::obj().set("family", m.family).set("nodes_per_side", n).set("got", got)),
                Err(p) => l.violation(format!("girth_with_max panicked on a long graph: {}", panic_class(&p)), J::obj().set("family", m.family)),
            }
            let mut d = Dig::new();
            d.s("long").u(n as u64).u(closed as u64);
            l.nt(d.get());
        });
    }
    run.sub_seq("directed", 1, |l, _idx, rng| {
        // the witness of the repaired defect: 4-cycle plus pendant path
        let m = Mat::new(3, 3, vec![(0, 0), (0, 1), (1, 0), (1, 1), (2, 1), (2, 2)], "directed-4cycle-pendant");
        check_graph(l, &m, rng);
        // hexagon with pendant, K22 with two pendants, single edge, empty
        let m = Mat::new(4, 4, vec![(0, 0), (0, 1), (1, 1), (1, 2), (2, 2), (2, 0), (3, 2), (3, 3)], "directed-6cycle-pendant");
        check_graph(l, &m, rng);
        let m = Mat::new(1, 1, vec![(0, 0)], "directed-single-edge");
        check_graph(l, &m, rng);
        let m = Mat::new(2, 3, vec![], "directed-empty");
        check_graph(l, &m, rng);
        // 8-cycle with a 4-cycle attached by a bridge: local girths 8, 4 and none
        let mut e = vec![];
        for j in 0..4 {
            e.push((j, j));
            e.push((j, (j + 1) % 4));
        }
        e.extend([(4, 0), (4, 4), (5, 4), (5, 5), (6, 4), (6, 5)]);
        let m = Mat::new(7, 6, e, "directed-8cycle-bridge-4cycle");
        check_graph(l, &m, rng);
    });
}
