//! Checker-supplied arithmetics plugged into the public `DecoderArithmetic`
//! extension point: an exact integer min-sum and a tracing wrapper that logs
//! every trait call at the boundary.

use crate::num::Num;
use ldpc_toolbox::decoder::arithmetic::DecoderArithmetic;
use ldpc_toolbox::decoder::{Message, SentMessage};
use std::sync::{Arc, Mutex};

// ---------------------------------------------------------------- IntMinSum

/// Exact integer min-sum: every operation is exact and order independent.
#[derive(Debug, Clone, Default)]
pub struct IntMinSum;

fn minsum_excl(vals: &[i64], j: usize) -> i64 {
    let mut sign = 1i64;
    let mut m = i64::MAX;
    let mut any = false;
    for (i, &x) in vals.iter().enumerate() {
        if i == j {
            continue;
        }
        any = true;
        if x < 0 {
            sign = -sign;
        }
        m = m.min(x.abs());
    }
    if !any { 0 } else { sign * m }
}

impl DecoderArithmetic for IntMinSum {
    type Llr = i64;
    type CheckMessage = i64;
    type VarMessage = i64;
    type VarLlr = i64;
    fn input_llr_quantize(&self, llr: f64) -> i64 {
        llr.round() as i64
    }
    fn llr_hard_decision(&self, llr: i64) -> bool {
        llr <= 0
    }
    fn llr_to_var_message(&self, llr: i64) -> i64 {
        llr
    }
    fn llr_to_var_llr(&self, llr: i64) -> i64 {
        llr
    }
    fn var_llr_to_llr(&self, v: i64) -> i64 {
        v
    }
    fn send_check_messages<F>(&mut self, var_messages: &[Message<i64>], mut send: F)
    where
        F: FnMut(SentMessage<i64>),
    {
        let vals: Vec<i64> = var_messages.iter().map(|m| m.value).collect();
        for (j, m) in var_messages.iter().enumerate() {
            send(SentMessage {
                dest: m.source,
                value: minsum_excl(&vals, j),
            });
        }
    }
    fn send_var_messages<F>(&mut self, input_llr: i64, check_messages: &[Message<i64>], mut send: F) -> i64
    where
        F: FnMut(SentMessage<i64>),
    {
        let total: i64 = input_llr + check_messages.iter().map(|m| m.value).sum::<i64>();
        for m in check_messages {
            send(SentMessage {
                dest: m.source,
                value: total - m.value,
            });
        }
        total
    }
    fn update_check_messages_and_vars(&mut self, check_messages: &mut [SentMessage<i64>], vars: &mut [i64]) {
        let ext: Vec<i64> = check_messages.iter().map(|m| vars[m.dest] - m.value).collect();
        for (j, m) in check_messages.iter_mut().enumerate() {
            let new = minsum_excl(&ext, j);
            vars[m.dest] = ext[j] + new;
            m.value = new;
        }
    }
}

// ---------------------------------------------------------------- Trace<A>

#[derive(Debug, Clone)]
pub enum Event {
    Quantize { input: f64, out: f64 },
    HardDecision { llr: f64, out: bool },
    LlrToVarMsg { llr: f64, out: f64 },
    LlrToVarLlr { llr: f64, out: f64 },
    VarLlrToLlr { var: f64, out: f64 },
    SendCheck { inputs: Vec<(usize, f64)>, outputs: Vec<(usize, f64)> },
    SendVar { input_llr: f64, inputs: Vec<(usize, f64)>, outputs: Vec<(usize, f64)>, ret: f64 },
    Update { before: Vec<(usize, f64)>, vars_before: Vec<f64>, after: Vec<(usize, f64)>, vars_after: Vec<f64> },
}

pub type Log = Arc<Mutex<Vec<Event>>>;

/// Forwards every call to `inner` and logs (method, inputs, outputs).
/// `force_hard`: if Some(b), llr_hard_decision returns b (used to keep the
/// decoder iterating in the posterior check).
#[derive(Debug)]
pub struct Trace<A: DecoderArithmetic> {
    pub inner: A,
    pub log: Log,
    pub force_hard: Option<bool>,
}

impl<A: DecoderArithmetic> Trace<A> {
    pub fn new(inner: A) -> (Trace<A>, Log) {
        let log: Log = Arc::new(Mutex::new(Vec::new()));
        (
            Trace {
                inner,
                log: log.clone(),
                force_hard: None,
            },
            log,
        )
    }
    fn push(&self, e: Event) {
        self.log.lock().unwrap().push(e);
    }
}

impl<A> DecoderArithmetic for Trace<A>
where
    A: DecoderArithmetic,
    A::Llr: Num,
    A::CheckMessage: Num,
    A::VarMessage: Num,
    A::VarLlr: Num,
{
    type Llr = A::Llr;
    type CheckMessage = A::CheckMessage;
    type VarMessage = A::VarMessage;
    type VarLlr = A::VarLlr;

    fn input_llr_quantize(&self, llr: f64) -> A::Llr {
        let out = self.inner.input_llr_quantize(llr);
        self.push(Event::Quantize { input: llr, out: out.to_f64() });
        out
    }
    fn llr_hard_decision(&self, llr: A::Llr) -> bool {
        let out = match self.force_hard {
            Some(b) => b,
            None => self.inner.llr_hard_decision(llr),
        };
        self.push(Event::HardDecision { llr: llr.to_f64(), out });
        out
    }
    fn llr_to_var_message(&self, llr: A::Llr) -> A::VarMessage {
        let out = self.inner.llr_to_var_message(llr);
        self.push(Event::LlrToVarMsg { llr: llr.to_f64(), out: out.to_f64() });
        out
    }
    fn llr_to_var_llr(&self, llr: A::Llr) -> A::VarLlr {
        let out = self.inner.llr_to_var_llr(llr);
        self.push(Event::LlrToVarLlr { llr: llr.to_f64(), out: out.to_f64() });
        out
    }
    fn var_llr_to_llr(&self, v: A::VarLlr) -> A::Llr {
        let out = self.inner.var_llr_to_llr(v);
        self.push(Event::VarLlrToLlr { var: v.to_f64(), out: out.to_f64() });
        out
    }
    fn send_check_messages<F>(&mut self, var_messages: &[Message<A::VarMessage>], mut send: F)
    where
        F: FnMut(SentMessage<A::CheckMessage>),
    {
        let inputs: Vec<(usize, f64)> = var_messages.iter().map(|m| (m.source, m.value.to_f64())).collect();
        let mut outputs = Vec::with_capacity(inputs.len());
        self.inner.send_check_messages(var_messages, |m| {
            outputs.push((m.dest, m.value.to_f64()));
            send(m)
        });
        self.push(Event::SendCheck { inputs, outputs });
    }
    fn send_var_messages<F>(&mut self, input_llr: A::Llr, check_messages: &[Message<A::CheckMessage>], mut send: F) -> A::Llr
    where
        F: FnMut(SentMessage<A::VarMessage>),
    {
        let inputs: Vec<(usize, f64)> = check_messages.iter().map(|m| (m.source, m.value.to_f64())).collect();
        let mut outputs = Vec::with_capacity(inputs.len());
        let ret = self.inner.send_var_messages(input_llr, check_messages, |m| {
            outputs.push((m.dest, m.value.to_f64()));
            send(m)
        });
        self.push(Event::SendVar {
            input_llr: input_llr.to_f64(),
            inputs,
            outputs,
            ret: ret.to_f64(),
        });
        ret
    }
    fn update_check_messages_and_vars(&mut self, check_messages: &mut [SentMessage<A::CheckMessage>], vars: &mut [A::VarLlr]) {
        let before: Vec<(usize, f64)> = check_messages.iter().map(|m| (m.dest, m.value.to_f64())).collect();
        let vars_before: Vec<f64> = vars.iter().map(|v| v.to_f64()).collect();
        self.inner.update_check_messages_and_vars(check_messages, vars);
        let after: Vec<(usize, f64)> = check_messages.iter().map(|m| (m.dest, m.value.to_f64())).collect();
        let vars_after: Vec<f64> = vars.iter().map(|v| v.to_f64()).collect();
        self.push(Event::Update {
            before,
            vars_before,
            after,
            vars_after,
        });
    }
}
