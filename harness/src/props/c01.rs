//! C01 – a decoder never reports success on a word that is not a codeword.

use crate::ctx::{Local, Run, guard, panic_class};
use crate::genm::{self, Mat, sign_pattern};
use crate::json::{J, jfs};
use crate::oracle::is_codeword;
use crate::rng::{Dig, Rng};
use clap::ValueEnum;
use ldpc_toolbox::decoder::factory::{DecoderFactory, DecoderImplementation};
use ldpc_toolbox::decoder::{DecoderOutput, LdpcDecoder};

pub fn all_impls() -> Vec<DecoderImplementation> {
    DecoderImplementation::value_variants().to_vec()
}

/// Judge one decode result against the statement. Returns the outcome kind.
pub fn judge(
    l: &mut Local,
    name: &str,
    m: &Mat,
    llrs: &[f64],
    limit: usize,
    res: &Result<DecoderOutput, DecoderOutput>,
    class: &str,
) -> &'static str {
    let n = m.cols;
    let s = sign_pattern(llrs);
    let cw0 = is_codeword(m.rows, &m.e, &s);
    let sched = if name.starts_with("HL") { "layered" } else { "flooding" };
    let det = |what: &str, out: &DecoderOutput| {
        m.json()
            .set("implementation", name)
            .set("llrs", jfs(llrs))
            .set("llr_class", class)
            .set("limit", limit)
            .set("what", what)
            .set("word", out.codeword.clone())
            .set("iterations", out.iterations)
            .set("sign_pattern_is_codeword", cw0)
    };
    match res {
        Ok(out) => {
            if out.codeword.len() != n {
                l.violation(format!("success word has wrong length ({})", sched), det("length", out));
                return "bad";
            }
            if out.codeword.iter().any(|&b| b > 1) {
                l.violation(format!("success word has a non-bit value ({})", sched), det("non-bit", out));
                return "bad";
            }
            if !is_codeword(m.rows, &m.e, &out.codeword) {
                l.violation(
                    format!("success reported on a word that violates a parity check ({}, iterations {})", sched, if out.iterations == 0 { "= 0" } else { ">= 1" }),
                    det("syndrome of success word is non-zero", out),
                );
                return "bad";
            }
            if out.iterations > limit {
                l.violation(format!("success with iteration count above the limit ({})", sched), det("iterations > limit", out));
                return "bad";
            }
            if (out.iterations == 0) != cw0 {
                l.violation(
                    format!("iteration count 0 does not coincide with the input sign pattern being a codeword ({})", sched),
                    det("iterations == 0 <=> sign pattern is a codeword", out),
                );
                return "bad";
            }
            if out.iterations == 0 && out.codeword != s {
                l.violation(format!("zero-iteration success word differs from the input sign pattern ({})", sched), det("word != sign pattern", out));
                return "bad";
            }
            if out.iterations == 0 { "shortcut" } else { "ok1" }
        }
        Err(out) => {
            if out.codeword.len() != n {
                l.violation(format!("failure word has wrong length ({})", sched), det("length", out));
                return "bad";
            }
            if out.iterations != limit {
                l.violation(format!("failure with iteration count != limit ({})", sched), det("iterations != limit", out));
                return "bad";
            }
            if cw0 {
                l.violation(format!("failure although the input sign pattern is a codeword ({})", sched), det("sign pattern is a codeword", out));
                return "bad";
            }
            if limit >= 1 && is_codeword(m.rows, &m.e, &out.codeword) {
                l.violation(format!("failure reported with a word that satisfies every check ({})", sched), det("failure word is a codeword", out));
                return "bad";
            }
            "fail"
        }
    }
}

fn one_matrix(l: &mut Local, m: &Mat, rng: &mut Rng, nvec: usize, limits: &[usize], impls: &[DecoderImplementation]) {
    let h = if rng.coin() { m.to_sparse() } else { m.to_sparse_shuffled(rng) };
    let cw = genm::random_codeword(rng, m);
    let mut decs: Vec<(String, Box<dyn LdpcDecoder>)> = Vec::new();
    for im in impls {
        let name = im.to_string();
        match guard(|| im.build_decoder(h.clone())) {
            Ok(d) => decs.push((name, d)),
            Err(p) => {
                l.violation(format!("build_decoder panicked: {}", panic_class(&p)), m.json().set("implementation", name).set("panic", p));
            }
        }
    }
    let mut md = Dig::new();
    md.u(m.rows as u64).u(m.cols as u64).entries(&m.e);
    for v in 0..nvec {
        let class = rng.below(genm::LLR_CLASSES.len());
        let cname = genm::LLR_CLASSES[class];
        let llrs = genm::llr_vector(rng, m.cols, class, Some(&cw));
        for &limit in limits {
            for (name, dec) in decs.iter_mut() {
                l.eval();
                let r = guard(|| dec.decode(&llrs, limit));
                match r {
                    Err(p) => {
                        l.violation(
                            format!("decode panicked ({}): {}", if name.starts_with("HL") { "layered" } else { "flooding" }, panic_class(&p)),
                            m.json().set("implementation", name.clone()).set("llrs", jfs(&llrs)).set("limit", limit).set("panic", p),
                        );
                        // the decoder object may be poisoned: rebuild
                        if let Ok(im) = name.parse::<DecoderImplementation>() {
                            *dec = im.build_decoder(h.clone());
                        }
                    }
                    Ok(res) => {
                        let kind = judge(l, name, m, &llrs, limit, &res, cname);
                        l.count(&format!("{}:{}", name, kind));
                        if kind == "ok1" || kind == "fail" {
                            let mut d = md.clone();
                            d.s(name).fs(&llrs).u(limit as u64);
                            l.nt(d.get());
                        }
                    }
                }
            }
        }
        // "every iteration limit": the largest representable limits, on inputs known to converge (a success at a
        // finite limit was just observed, and a decoder carries no state, so these calls return after as many iterations)
        if v % 4 == 0 {
            let lmax = *limits.iter().max().unwrap_or(&0);
            for (name, dec) in decs.iter_mut() {
                let converges = matches!(guard(|| dec.decode(&llrs, lmax)), Ok(Ok(_)));
                if !converges {
                    continue;
                }
                for limit in [usize::MAX, usize::MAX - 1] {
                    l.eval();
                    match guard(|| dec.decode(&llrs, limit)) {
                        Err(p) => {
                            l.violation(
                                format!("decode panicked with the largest iteration limit ({}): {}", if name.starts_with("HL") { "layered" } else { "flooding" }, panic_class(&p)),
                                m.json().set("implementation", name.clone()).set("llrs", jfs(&llrs)).set("limit", limit).set("panic", p),
                            );
                            if let Ok(im) = name.parse::<DecoderImplementation>() {
                                *dec = im.build_decoder(h.clone());
                            }
                        }
                        Ok(res) => {
                            if res.is_err() {
                                l.violation(
                                    format!("failure with an unlimited iteration count on an input that converges within {} iterations ({})", lmax, if name.starts_with("HL") { "layered" } else { "flooding" }),
                                    m.json().set("implementation", name.clone()).set("llrs", jfs(&llrs)).set("limit", limit),
                                );
                            } else {
                                judge(l, name, m, &llrs, limit, &res, cname);
                                l.count("unlimited_iteration_limit_calls");
                            }
                        }
                    }
                }
            }
        }
        // the limit at which the input converges, exactly: find the iteration k of the first success with a generous
        // limit, then ask for limit k (success at the very last allowed iteration) and k-1 (failure)
        if v % 3 == 1 {
            for (name, dec) in decs.iter_mut() {
                let Ok(Ok(o)) = guard(|| dec.decode(&llrs, 60)) else { continue };
                let k = o.iterations;
                if k == 0 {
                    continue;
                }
                for limit in [k, k - 1] {
                    l.eval();
                    match guard(|| dec.decode(&llrs, limit)) {
                        Err(p) => {
                            l.violation(format!("decode panicked ({}): {}", if name.starts_with("HL") { "layered" } else { "flooding" }, panic_class(&p)), m.json().set("implementation", name.clone()).set("llrs", jfs(&llrs)).set("limit", limit));
                            if let Ok(im) = name.parse::<DecoderImplementation>() {
                                *dec = im.build_decoder(h.clone());
                            }
                        }
                        Ok(res) => {
                            judge(l, name, m, &llrs, limit, &res, cname);
                            l.count(if limit == k { "calls_with_limit_equal_to_convergence_iteration" } else { "calls_with_limit_one_below_convergence" });
                            l.max("largest_convergence_iteration_replayed", k as f64);
                        }
                    }
                }
            }
        }
        if v == 0 {
            l.sample(|| m.json().set("llr_class", cname).set("llrs", jfs(&llrs)).set("limits", limits.iter().map(|&x| x as u64).collect::<Vec<_>>()).set("implementations", decs.len()));
        }
    }
}

pub fn run(run: &mut Run) {
    run.rule = "all 36 names from DecoderImplementation::value_variants() built through build_decoder x generated matrices (10 families, row weight >= 2, entries inserted in sorted or shuffled order) x 12 hostile LLR classes (|x| <= 1e30: subnormal, tiny, huge, +-0, mixed, 8-bit rounding boundaries, zero blocks, codeword +/- few flips, all equal) x limits from {0,1,2,3,5,10,11,13,21,50}, the exact iteration of the first success and one below it (also on slowly converging frames of (3,6)-regular codes), plus usize::MAX and usize::MAX-1 on inputs that converge; repeat-twice codes of 65540 and 131080 bits (index widths) with one unreliable position beyond 2^16 for all 36 names; thorough adds noisy all-zero-codeword frames on CCSDS AR4JA r1/2 k=1024 and DVB-S2 short 1/2; oracle = own syndrome on the entry list and sign pattern (llr <= 0 -> 1); non-trivial = decode that ran >= 1 iteration (success after >= 1 or failure); distinct by (implementation, matrix, LLR vector, limit) digest".into();
    run.assumptions = vec![
        "a wrong-length LLR slice is outside the domain (decode asserts on it)".into(),
        "harness profile enables overflow-checks and debug-assertions for the library".into(),
    ];
    let impls = all_impls();
    run.extra("implementations", impls.len());
    let tier = run.tier;
    let n = if cfg!(miri) { 2 } else { tier.n(12_000, 500_000) };
    let impls2 = impls.clone();
    run.sub("matrices", n, move |l, idx, rng| {
        let m = if idx % 16 == 0 { genm::decoder_matrix(rng, 10, 24) } else { genm::decoder_matrix(rng, 6, 12) };
        // one matrix in eight gets bits that take part in no check (only the row weights are constrained)
        let m = if idx % 8 == 3 { genm::add_isolated_columns(&m, rng) } else { m };
        let all_limits = [0usize, 1, 2, 3, 5, 10, 11, 13, 21, 50];
        let mut limits = vec![0usize, 1];
        limits.push(*rng.pick(&all_limits[2..]));
        if rng.coin() {
            limits.push(*rng.pick(&all_limits[2..]));
        }
        one_matrix(l, &m, rng, if cfg!(miri) { 2 } else { 12 }, &limits, &impls2);
    });
    let impls3 = impls.clone();
    run.sub_seq("directed", 1, move |l, _i, rng| {
        let m = genm::textbook();
        one_matrix(l, &m, rng, 24, &[0, 1, 2, 100], &impls3);
        // H = [[1,1,0],[0,1,1]] with the repaired-defect witness
        let m = Mat::new(2, 3, vec![(0, 0), (0, 1), (1, 1), (1, 2)], "directed-2x3");
        one_matrix(l, &m, rng, 24, &[0, 1, 3], &impls3);
    });
    // slow convergence: (3,6)-regular codes of 96..144 bits with noise near the decoding threshold need 5..30
    // iterations; the limit is then set exactly to the iteration of the first success, and one below
    if !cfg!(miri) {
        let impls6 = impls.clone();
        run.sub("slow-convergence", run.tier.n(144, 2880), move |l, idx, rng| {
            let im = impls6[idx as usize % impls6.len()];
            let name = im.to_string();
            let rows = *rng.pick(&[48usize, 60, 72]);
            let n = 2 * rows;
            // every column in 3 rows, rows filled evenly
            let mut e: Vec<(usize, usize)> = Vec::new();
            let mut slots: Vec<usize> = (0..3 * n).map(|i| i % rows).collect();
            rng.shuffle(&mut slots);
            for c in 0..n {
                for j in 0..3 {
                    e.push((slots[3 * c + j], c));
                }
            }
            let m = Mat::new(rows, n, e, "regular-3-6");
            if m.row_weights().iter().any(|&w| w < 2) {
                return;
            }
            let h = m.to_sparse();
            let mut dec = im.build_decoder(h.clone());
            for _ in 0..6 {
                let sigma = rng.uniform(0.75, 0.95);
                let llrs: Vec<f64> = (0..n).map(|_| 2.0 * (1.0 + sigma * rng.normal()) / (sigma * sigma)).collect();
                let Ok(Ok(o)) = guard(|| dec.decode(&llrs, 80)) else { continue };
                let k = o.iterations;
                if k < 2 {
                    continue;
                }
                for limit in [k, k - 1, k + 1] {
                    l.eval();
                    match guard(|| dec.decode(&llrs, limit)) {
                        Err(p) => {
                            l.violation(format!("decode panicked on a slowly converging frame: {}", panic_class(&p)), J::obj().set("implementation", name.clone()).set("limit", limit).set("panic", p));
                            dec = im.build_decoder(h.clone());
                        }
                        Ok(res) => {
                            let kind = judge_compact(l, &name, &m, &llrs, limit, &res);
                            l.count(&format!("slow:{}", kind));
                            l.max("largest_convergence_iteration_replayed", k as f64);
                            if k >= 11 {
                                l.count("slow_frames_converging_at_iteration_11_or_later");
                            }
                            if kind == "ok1" || kind == "fail" {
                                let mut d = Dig::new();
                                d.s(&name).u(limit as u64).fs(&llrs[..12]);
                                l.nt(d.get());
                            }
                        }
                    }
                }
            }
        });
    }
    // codes longer than 2^16 and 2^17 bits (index width): x_i = x_{i+n/2}, one unreliable position beyond the boundary
    if !cfg!(miri) {
        let impls5 = impls.clone();
        run.sub("long-codes", impls.len() as u64, move |l, idx, rng| {
            let im = impls5[idx as usize % impls5.len()];
            let name = im.to_string();
            let half = *rng.pick(&[32_770usize, 65_540]);
            let n = 2 * half;
            let e: Vec<(usize, usize)> = (0..half).flat_map(|i| [(i, i), (i, i + half)]).collect();
            let m = Mat::new(half, n, e, if half == 32_770 { "repeat-twice-65540" } else { "repeat-twice-131080" });
            let h = m.to_sparse();
            let mut dec = match guard(|| im.build_decoder(h.clone())) {
                Ok(d) => d,
                Err(p) => {
                    l.violation(format!("build_decoder panicked on a long code: {}", panic_class(&p)), J::obj().set("implementation", name).set("n", n));
                    return;
                }
            };
            for case in 0..3 {
                // all bits reliably 0 except one position in the upper half that says 1 (weakly or strongly)
                let pos = match case {
                    0 => n - 1 - rng.below(4),
                    1 => 65_536 + rng.below(4),
                    _ => half + rng.below(half),
                };
                let mut llrs = vec![3.0f64; n];
                llrs[pos] = *rng.pick(&[-0.5, -2.0, -8.0]);
                for limit in [0usize, 5] {
                    l.eval();
                    match guard(|| dec.decode(&llrs, limit)) {
                        Err(p) => {
                            l.violation(format!("decode panicked on a long code: {}", panic_class(&p)), J::obj().set("implementation", name.clone()).set("n", n).set("panic", p));
                            dec = im.build_decoder(h.clone());
                        }
                        Ok(res) => {
                            let kind = judge_compact(l, &name, &m, &llrs, limit, &res);
                            l.count(&format!("{}:long:{}", name, kind));
                            if kind == "ok1" || kind == "fail" {
                                let mut d = Dig::new();
                                d.s(&name).u(n as u64).u(pos as u64).u(limit as u64).f(llrs[pos]);
                                l.nt(d.get());
                            }
                        }
                    }
                }
            }
        });
    }
    if tier == crate::ctx::Tier::Thorough && !cfg!(miri) {
        let impls4 = impls.clone();
        run.sub("real-codes", (impls.len() * 2) as u64, move |l, idx, rng| {
            use ldpc_toolbox::codes::{ccsds, dvbs2};
            let which = idx as usize / impls4.len();
            let im = impls4[idx as usize % impls4.len()];
            let (h, fam): (_, &'static str) = if which == 0 {
                (ccsds::AR4JACode::new(ccsds::AR4JARate::R1_2, ccsds::AR4JAInfoSize::K1024).h(), "ccsds-ar4ja-1/2-1024")
            } else {
                (dvbs2::Code::R1_2short.h(), "dvbs2-short-1/2")
            };
            let m = Mat::new(h.num_rows(), h.num_cols(), genm::from_sparse(&h), fam);
            let name = im.to_string();
            let mut dec = im.build_decoder(h.clone());
            for f in 0..20 {
                let ebn0_db = 0.5 + 0.15 * f as f64;
                let rate = 0.45;
                let sigma = (0.5 / (rate * 10f64.powf(ebn0_db / 10.0))).sqrt();
                // all-zero codeword: bit 0 -> positive LLR
                let llrs: Vec<f64> = (0..m.cols).map(|_| 2.0 * (1.0 + sigma * rng.normal()) / (sigma * sigma)).collect();
                let limit = *rng.pick(&[1usize, 5, 20, 50]);
                l.eval();
                match guard(|| dec.decode(&llrs, limit)) {
                    Err(p) => {
                        l.violation(format!("decode panicked on a real code: {}", panic_class(&p)), J::obj().set("implementation", name.clone()).set("code", fam).set("panic", p));
                        dec = im.build_decoder(h.clone());
                    }
                    Ok(res) => {
                        // replay detail would be huge: judge with a compact matrix description
                        let mc = Mat { rows: m.rows, cols: m.cols, e: m.e.clone(), family: fam };
                        let kind = judge_compact(l, &name, &mc, &llrs, limit, &res);
                        l.count(&format!("{}:real:{}", name, kind));
                        if kind == "ok1" || kind == "fail" {
                            let mut d = Dig::new();
                            d.s(&name).s(fam).fs(&llrs[..16]).u(limit as u64);
                            l.nt(d.get());
                        }
                    }
                }
            }
        });
    }
}

/// like `judge` but keeps violation details small (big real codes)
fn judge_compact(l: &mut Local, name: &str, m: &Mat, llrs: &[f64], limit: usize, res: &Result<DecoderOutput, DecoderOutput>) -> &'static str {
    let s = sign_pattern(llrs);
    let cw0 = is_codeword(m.rows, &m.e, &s);
    let det = |what: &str, out: &DecoderOutput| {
        J::obj()
            .set("implementation", name)
            .set("code", m.family)
            .set("limit", limit)
            .set("what", what)
            .set("iterations", out.iterations)
            .set("llrs_head", jfs(&llrs[..8]))
            .set("positions_with_negative_llr", llrs.iter().enumerate().filter(|(_, x)| **x < 0.0).take(8).map(|(i, _)| i as u64).collect::<Vec<_>>())
    };
    match res {
        Ok(out) => {
            if out.codeword.len() != m.cols || !is_codeword(m.rows, &m.e, &out.codeword) {
                l.violation("success reported on a word that violates a parity check (real code)", det("syndrome", out));
                return "bad";
            }
            if out.iterations > limit || (out.iterations == 0) != cw0 || (out.iterations == 0 && out.codeword != s) {
                l.violation("iteration count rule broken (real code)", det("iterations", out));
                return "bad";
            }
            if out.iterations == 0 { "shortcut" } else { "ok1" }
        }
        Err(out) => {
            if out.codeword.len() != m.cols || out.iterations != limit || cw0 || (limit >= 1 && is_codeword(m.rows, &m.e, &out.codeword)) {
                l.violation("failure result rule broken (real code)", det("failure", out));
                return "bad";
            }
            "fail"
        }
    }
}
