#!/bin/bash
# tools/selftest_supervisor.sh -- validation only. Makes one case of a workload (a) spin forever and (b) abort the
# process (hooks in the HARNESS, not in the library: LV_SELFTEST) and expects the supervising process to turn both
# into a VIOLATION naming that case, exit 1; and expects exit 0 without the hook.
set -u
cd /verif && ./check C17 quick >/dev/null 2>&1 || { echo "baseline not silent"; exit 1; }
LV=/verif/target/harness/release/lv
out=$(LV_CASE_CPU_S=6 LV_SELFTEST=spin:history:1234 $LV C17 --tier quick 2>&1); rc=$?
echo "$out" | grep -E "^(VIOLATION|  signature)"; echo "spin: exit=$rc"
[ $rc -eq 1 ] && echo "$out" | grep -q "a call does not return" || { echo "FAIL spin"; exit 1; }
out=$(LV_SELFTEST=abort:history:77 $LV C17 --tier quick 2>&1); rc=$?
echo "$out" | grep -E "^(VIOLATION|  signature)"; echo "abort: exit=$rc"
[ $rc -eq 1 ] && echo "$out" | grep -q "the process is killed" || { echo "FAIL abort"; exit 1; }
out=$(LV_SELFTEST=flaky:history:77 $LV C17 --tier quick 2>&1); rc=$?
echo "$out" | grep -E "^(VIOLATION|INCONCLUSIVE)" | cut -c1-160; echo "flaky (dies only inside the full workload): exit=$rc"
[ $rc -eq 2 ] && echo "$out" | grep -q "^INCONCLUSIVE" && ! echo "$out" | grep -q "^VIOLATION" || { echo "FAIL flaky"; exit 1; }
rm -f /verif/replays/C17/*.json
./check C17 quick >/dev/null 2>&1; echo "restored: exit=$?"
