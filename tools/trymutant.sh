#!/bin/bash
# tools/trymutant.sh <patch.diff> <ID> [tier]  -- validation only, never used by a check.
# Applies a seeded change to /repo, runs the check, and always reverts.
set -u
PATCH=$1; ID=$2; TIER=${3:-quick}
cd /repo || exit 2
if [ -n "$(git status --porcelain --untracked-files=no)" ]; then echo "repo not clean"; exit 2; fi
git apply "$PATCH" || { echo "patch does not apply"; exit 2; }
trap 'git -C /repo checkout -- . ' EXIT
cd /verif
OUT=$(./check "$ID" "$TIER" 2>&1); rc=$?
echo "$OUT" | grep -E "^(VIOLATION|  signature|RESULT|ERROR|INCONCLUSIVE|KNOWN)" | head -12
echo "exit=$rc"
