//! C19 – the C interface is a faithful wrapper of the Rust encoder and decoder.
//!
//! The exported `ldpc_toolbox_*` symbols are called through `extern "C"`
//! declarations and compared with the Rust API. Because a panic inside an
//! `extern "C"` function aborts the process, all calls into the C interface
//! happen in a child process of the monitor (`--leg capi`); an abort is then
//! an observation, not the end of the monitor.

use crate::ctx::{Local, Run, guard};
use crate::genm::{self, Mat};
use crate::impls::all_names;
use crate::json::{J, jfs};
use crate::oracle::tail_invertible;
use crate::props::c02::{from_gf2, to_gf2};
use crate::rng::{Dig, Rng};
use ldpc_toolbox::decoder::factory::{DecoderFactory, DecoderImplementation};
use ldpc_toolbox::encoder::Encoder;
use ldpc_toolbox::simulation::puncturing::Puncturer;
use std::ffi::{CString, c_char, c_void};
use std::str::FromStr;

unsafe extern "C" {
    fn ldpc_toolbox_decoder_ctor(alist_file_path: *const c_char, implementation: *const c_char, puncturing: *const c_char) -> *mut c_void;
    fn ldpc_toolbox_decoder_ctor_alist_string(alist: *const c_char, implementation: *const c_char, puncturing: *const c_char) -> *mut c_void;
    fn ldpc_toolbox_decoder_dtor(decoder: *mut c_void);
    fn ldpc_toolbox_decoder_decode_f64(decoder: *mut c_void, output: *mut u8, output_len: usize, llrs: *const f64, llrs_len: usize, max_iterations: u32) -> i32;
    fn ldpc_toolbox_decoder_decode_f32(decoder: *mut c_void, output: *mut u8, output_len: usize, llrs: *const f32, llrs_len: usize, max_iterations: u32) -> i32;
    fn ldpc_toolbox_encoder_ctor(alist_file_path: *const c_char, puncturing: *const c_char) -> *mut c_void;
    fn ldpc_toolbox_encoder_ctor_alist_string(alist: *const c_char, puncturing: *const c_char) -> *mut c_void;
    fn ldpc_toolbox_encoder_dtor(encoder: *mut c_void);
    fn ldpc_toolbox_encoder_encode(encoder: *mut c_void, output: *mut u8, output_len: usize, input: *const u8, input_len: usize);
}

/// decoder string constructor: true if it returned null (handle destroyed otherwise)
pub fn c_decoder_ctor_is_null(alist: &[u8], implementation: &[u8], puncturing: &[u8]) -> bool {
    let (ca, ci, cp) = (cs(alist), cs(implementation), cs(puncturing));
    let h = unsafe { ldpc_toolbox_decoder_ctor_alist_string(ca.as_ptr(), ci.as_ptr(), cp.as_ptr()) };
    if !h.is_null() {
        unsafe { ldpc_toolbox_decoder_dtor(h) };
    }
    h.is_null()
}

/// one decode through a freshly constructed C handle (string constructor, no puncturing): (return value, output bytes)
pub fn c_decode_once(alist: &[u8], implementation: &[u8], llrs: &[f64], limit: u32, out_len: usize) -> Option<(i32, Vec<u8>)> {
    let (ca, ci, cp) = (cs(alist), cs(implementation), cs(b""));
    let h = unsafe { ldpc_toolbox_decoder_ctor_alist_string(ca.as_ptr(), ci.as_ptr(), cp.as_ptr()) };
    if h.is_null() {
        return None;
    }
    let mut out = vec![0xAAu8; out_len].into_boxed_slice();
    let l64: Box<[f64]> = llrs.to_vec().into_boxed_slice();
    let ret = unsafe { ldpc_toolbox_decoder_decode_f64(h, out.as_mut_ptr(), out_len, l64.as_ptr(), l64.len(), limit) };
    unsafe { ldpc_toolbox_decoder_dtor(h) };
    Some((ret, out.to_vec()))
}

/// one decode through a freshly constructed C handle, f32 entry point
pub fn c_decode_once_f32(alist: &[u8], implementation: &[u8], llrs: &[f32], limit: u32, out_len: usize) -> Option<(i32, Vec<u8>)> {
    let (ca, ci, cp) = (cs(alist), cs(implementation), cs(b""));
    let h = unsafe { ldpc_toolbox_decoder_ctor_alist_string(ca.as_ptr(), ci.as_ptr(), cp.as_ptr()) };
    if h.is_null() {
        return None;
    }
    let mut out = vec![0xAAu8; out_len].into_boxed_slice();
    let l32: Box<[f32]> = llrs.to_vec().into_boxed_slice();
    let ret = unsafe { ldpc_toolbox_decoder_decode_f32(h, out.as_mut_ptr(), out_len, l32.as_ptr(), l32.len(), limit) };
    unsafe { ldpc_toolbox_decoder_dtor(h) };
    Some((ret, out.to_vec()))
}

/// one decode through a C handle built by the FILE constructor
pub fn c_decode_once_file(path: &str, implementation: &[u8], llrs: &[f64], limit: u32, out_len: usize) -> Option<(i32, Vec<u8>)> {
    let (cpath, ci, cp) = (cs(path.as_bytes()), cs(implementation), cs(b""));
    let h = unsafe { ldpc_toolbox_decoder_ctor(cpath.as_ptr(), ci.as_ptr(), cp.as_ptr()) };
    if h.is_null() {
        return None;
    }
    let mut out = vec![0xAAu8; out_len].into_boxed_slice();
    let l64: Box<[f64]> = llrs.to_vec().into_boxed_slice();
    let ret = unsafe { ldpc_toolbox_decoder_decode_f64(h, out.as_mut_ptr(), out_len, l64.as_ptr(), l64.len(), limit) };
    unsafe { ldpc_toolbox_decoder_dtor(h) };
    Some((ret, out.to_vec()))
}

/// history of the file constructors: the SAME path holds different codes over time (same and different
/// sizes); every construction must use what the file contains now
fn file_history_case(l: &mut Local, rng: &mut Rng, names: &[String]) {
    let path = format!("/verif/target/legs/c19-history-{}.alist", std::process::id());
    let _ = std::fs::create_dir_all("/verif/target/legs");
    let n0 = rng.range(6, 12);
    for step in 0..4 {
        // two matrices of the same shape in a row, then another shape
        let m = loop {
            let m = genm::decoder_matrix(rng, 5, 12);
            if step == 0 || step == 2 || m.cols > 0 {
                break m;
            }
        };
        let m = if step % 2 == 1 {
            // same shape as before is likely to be misread silently: regenerate until the shape matches n0 or give up
            let mut mm = m;
            for _ in 0..50 {
                if mm.cols == n0 {
                    break;
                }
                mm = genm::decoder_matrix(rng, 5, 12);
            }
            mm
        } else {
            m
        };
        let h = m.to_sparse();
        std::fs::write(&path, h.alist()).expect("write alist");
        let name = rng.pick(names).clone();
        mark(&format!("file history step {} {} {}x{}", step, name, m.rows, m.cols));
        let cw = genm::random_codeword(rng, &m);
        let im = DecoderImplementation::from_str(&name).expect("name");
        for _ in 0..3 {
            let llrs = genm::llr_vector(rng, m.cols, 7, Some(&cw));
            let limit = *rng.pick(&[1u32, 2, 5]);
            let want = im.build_decoder(h.clone()).decode(&llrs, limit as usize);
            let (wret, wword) = match &want {
                Ok(o) => (o.iterations as i32, o.codeword.clone()),
                Err(o) => (-1, o.codeword.clone()),
            };
            l.eval();
            match c_decode_once_file(&path, name.as_bytes(), &llrs, limit, m.cols) {
                None => {
                    l.violation("file constructor returns null for a valid alist file", m.json().set("implementation", name.clone()).set("step", step));
                    break;
                }
                Some((ret, out)) => {
                    if ret != wret || out != wword {
                        l.violation(
                            "a decoder built by the file constructor does not use the matrix the file contains now (call history on one path)",
                            m.json().set("implementation", name.clone()).set("step", step).set("c_return", ret).set("c_output", out).set("rust", format!("{:?}", want)),
                        );
                        break;
                    }
                    let mut d = Dig::new();
                    d.s("file-history").entries(&m.e).fs(&llrs);
                    l.nt(d.get());
                }
            }
        }
        // encoder file constructor on the same path (when the tail happens to be invertible)
        if tail_invertible(m.rows, m.cols, &m.e) {
            let (cpath, cp) = (cs(path.as_bytes()), cs(b""));
            let he = unsafe { ldpc_toolbox_encoder_ctor(cpath.as_ptr(), cp.as_ptr()) };
            if !he.is_null() {
                let k = m.cols - m.rows;
                let msg: Vec<u8> = (0..k).map(|_| rng.coin() as u8).collect();
                let want = from_gf2(&Encoder::from_h(&h).expect("encoder").encode(&to_gf2(&msg)));
                let mut out = vec![0xAAu8; m.cols].into_boxed_slice();
                let inp: Box<[u8]> = msg.clone().into_boxed_slice();
                l.eval();
                unsafe { ldpc_toolbox_encoder_encode(he, out.as_mut_ptr(), out.len(), inp.as_ptr(), inp.len()) };
                if out[..] != want[..] {
                    l.violation("an encoder built by the file constructor does not use the matrix the file contains now (call history on one path)", m.json().set("step", step));
                }
                unsafe { ldpc_toolbox_encoder_dtor(he) };
            }
        }
    }
    // the hardest replacement to notice: new contents of the SAME byte length with the SAME modification time
    // (cp -p, rsync -t, a restore from backup): two columns of equal weight and equal index width swap places
    for _attempt in 0..6 {
        let m = genm::decoder_matrix(rng, 5, 9);
        let cols = m.col_lists();
        let pair = (0..m.cols).flat_map(|a| (a + 1..m.cols).map(move |b| (a, b))).find(|&(a, b)| cols[a].len() == cols[b].len() && cols[a] != cols[b]);
        let Some((a, b)) = pair else { continue };
        let e2: Vec<(usize, usize)> = m.e.iter().map(|&(r, c)| (r, if c == a { b } else if c == b { a } else { c })).collect();
        let m2 = genm::Mat::new(m.rows, m.cols, e2, "columns-swapped");
        let (t1, t2) = (m.to_sparse().alist(), m2.to_sparse().alist());
        if t1.len() != t2.len() || t1 == t2 {
            continue;
        }
        std::fs::write(&path, &t1).expect("write alist");
        let Ok(mtime) = std::fs::metadata(&path).and_then(|x| x.modified()) else { break };
        let name = rng.pick(names).clone();
        let im = DecoderImplementation::from_str(&name).expect("name");
        let cw = genm::random_codeword(rng, &m);
        let llrs = genm::llr_vector(rng, m.cols, 7, Some(&cw));
        mark(&format!("file history same-size same-mtime {} {}x{}", name, m.rows, m.cols));
        // first construction reads t1
        let _ = c_decode_once_file(&path, name.as_bytes(), &llrs, 5, m.cols);
        std::fs::write(&path, &t2).expect("write alist");
        if let Ok(f) = std::fs::OpenOptions::new().write(true).open(&path) {
            let _ = f.set_modified(mtime);
        }
        let h2 = m2.to_sparse();
        let mut judged = false;
        for _ in 0..6 {
            let llrs = genm::llr_vector(rng, m.cols, 7, Some(&cw));
            let want2 = im.build_decoder(h2.clone()).decode(&llrs, 5);
            let want1 = im.build_decoder(m.to_sparse()).decode(&llrs, 5);
            if format!("{:?}", want1) == format!("{:?}", want2) {
                continue; // this input does not tell the two matrices apart
            }
            let (wret, wword) = match &want2 {
                Ok(o) => (o.iterations as i32, o.codeword.clone()),
                Err(o) => (-1, o.codeword.clone()),
            };
            l.eval();
            judged = true;
            match c_decode_once_file(&path, name.as_bytes(), &llrs, 5, m.cols) {
                None => l.violation("file constructor returns null for a valid alist file", m2.json().set("implementation", name.clone())),
                Some((ret, out)) => {
                    if ret != wret || out != wword {
                        l.violation(
                            "a decoder built by the file constructor does not use the matrix the file contains now (contents replaced keeping length and modification time)",
                            m2.json().set("implementation", name.clone()).set("c_return", ret).set("c_output", out).set("rust", format!("{:?}", want2)),
                        );
                    } else {
                        l.count("file_replaced_same_size_same_mtime");
                    }
                }
            }
            break;
        }
        if judged {
            break;
        }
    }
    let _ = std::fs::remove_file(&path);
}

fn cs(bytes: &[u8]) -> CString {
    // interior NULs cannot be passed through a C string: cut there (what C would see)
    let cut = bytes.iter().position(|&b| b == 0).unwrap_or(bytes.len());
    CString::new(&bytes[..cut]).unwrap()
}

fn pattern_str(p: &Option<Vec<bool>>) -> String {
    match p {
        None => String::new(),
        Some(v) => v.iter().map(|&b| if b { "1" } else { "0" }).collect::<Vec<_>>().join(","),
    }
}

fn gen_pattern(rng: &mut Rng, n: usize) -> Option<Vec<bool>> {
    if rng.chance(0.4) {
        return None;
    }
    let lens: Vec<usize> = (1..=16).filter(|l| n % l == 0).collect();
    // prefer the longest pattern half of the time (7, 9, 11, 14 blocks when the length allows)
    let len = if rng.coin() { *lens.last().unwrap() } else { *rng.pick(&lens) };
    let mut p: Vec<bool> = (0..len).map(|_| rng.chance(0.7)).collect();
    let i = rng.below(len);
    p[i] = true; // at least one kept block
    Some(p)
}

fn mark(case: &str) {
    println!("CASE {}", case);
}

/// decoder: C vs Rust on one matrix, all given implementation names, with call histories on one handle
fn decoder_case(l: &mut Local, m: &Mat, names: &[String], rng: &mut Rng, via_file: bool) {
    let h = m.to_sparse();
    let alist = if rng.coin() { h.alist() } else { h.alist_no_padding() };
    let pattern = gen_pattern(rng, m.cols);
    let ps = pattern_str(&pattern);
    let punct = pattern.as_ref().map(|p| Puncturer::new(p));
    let cw = genm::random_codeword(rng, m);
    let path = format!("/verif/target/legs/c19-{}-{}.alist", std::process::id(), rng.next_u64());
    if via_file {
        let _ = std::fs::create_dir_all("/verif/target/legs");
        std::fs::write(&path, &alist).expect("write alist");
    }
    for name in names {
        mark(&format!("decoder {} on {}x{} punct {:?} file {}", name, m.rows, m.cols, ps, via_file));
        l.eval();
        let (ca, ci, cp, cpath) = (cs(alist.as_bytes()), cs(name.as_bytes()), cs(ps.as_bytes()), cs(path.as_bytes()));
        let hd = unsafe {
            if via_file {
                ldpc_toolbox_decoder_ctor(cpath.as_ptr(), ci.as_ptr(), cp.as_ptr())
            } else {
                ldpc_toolbox_decoder_ctor_alist_string(ca.as_ptr(), ci.as_ptr(), cp.as_ptr())
            }
        };
        let det0 = || m.json().set("implementation", name.clone()).set("puncturing", ps.clone()).set("constructor", if via_file { "file" } else { "string" });
        if hd.is_null() {
            l.violation("decoder constructor returns null for a valid (alist, implementation, puncturing) triple", det0());
            continue;
        }
        let im = DecoderImplementation::from_str(name).expect("name");
        let n_in = match &pattern {
            None => m.cols,
            Some(p) => m.cols / p.len() * p.iter().filter(|&&b| b).count(),
        };
        // history of calls on ONE handle; each compared with a FRESH Rust decoder
        let steps = rng.range(2, 6);
        let mut hist: Vec<J> = Vec::new();
        for step in 0..steps {
            let class = rng.below(genm::LLR_CLASSES.len());
            let full = genm::llr_vector(rng, m.cols, class, Some(&cw));
            // the punctured frame the C caller has: kept blocks only
            let mut llrs: Vec<f64> = match &punct {
                None => full.clone(),
                Some(p) => p.puncture(&ndarray::Array1::from_vec(full.clone())).unwrap().to_vec(),
            };
            debug_assert_eq!(llrs.len(), n_in);
            let use_f32 = rng.chance(0.4);
            if use_f32 {
                llrs = llrs.iter().map(|&x| x as f32 as f64).collect();
            }
            // "every buffer contents": now and then two or three infinite LLRs (saturated demodulator outputs); they
            // are exactly representable in both widths, so the f32 entry point must behave as its f64 widening
            if rng.chance(0.06) && llrs.len() >= 3 {
                for _ in 0..rng.range(2, 3) {
                    let i = rng.below(llrs.len());
                    llrs[i] = if rng.coin() { f64::INFINITY } else { f64::NEG_INFINITY };
                }
                // the reference is whatever the Rust decoder does with this input; if it panics there is nothing to
                // compare with (and nothing is claimed)
                let dep: Vec<f64> = match &punct {
                    None => llrs.clone(),
                    Some(p) => p.depuncture(&llrs).unwrap(),
                };
                if guard(|| im.build_decoder(h.clone()).decode(&dep, 2)).is_err() {
                    l.count("rust_decoder_panics_on_infinite_input_case_skipped");
                    continue;
                }
                l.count("calls_with_infinite_llrs");
            }
            let limit = *rng.pick(&[0u32, 1, 1, 2, 5, 20]);
            let rl = rng.range(1, m.cols);
            let out_len = *rng.pick(&[m.cols, (m.cols - m.rows).max(1), 1, rl]);
            // exactly sized heap buffers
            let mut out = vec![0xAAu8; out_len].into_boxed_slice();
            let ret = unsafe {
                if use_f32 {
                    let l32: Box<[f32]> = llrs.iter().map(|&x| x as f32).collect();
                    ldpc_toolbox_decoder_decode_f32(hd, out.as_mut_ptr(), out_len, l32.as_ptr(), l32.len(), limit)
                } else {
                    let l64: Box<[f64]> = llrs.clone().into_boxed_slice();
                    ldpc_toolbox_decoder_decode_f64(hd, out.as_mut_ptr(), out_len, l64.as_ptr(), l64.len(), limit)
                }
            };
            // Rust side: depuncture, decode with a fresh decoder
            let dep: Vec<f64> = match &punct {
                None => llrs.clone(),
                Some(p) => p.depuncture(&llrs).unwrap(),
            };
            let mut fresh = im.build_decoder(h.clone());
            let want = fresh.decode(&dep, limit as usize);
            let (want_ret, want_word) = match &want {
                Ok(o) => (o.iterations as i32, o.codeword.clone()),
                Err(o) => (-1, o.codeword.clone()),
            };
            hist.push(J::obj().set("llrs", jfs(&llrs)).set("limit", limit).set("output_len", out_len).set("f32", use_f32));
            l.eval();
            let det = |what: &str| det0().set("history", J::A(hist.clone())).set("step", step).set("what", what).set("c_return", ret).set("c_output", out.to_vec()).set("rust", format!("{:?}", want));
            if ret != want_ret {
                let kind = match (&want, ret) {
                    (Ok(o), -1) if o.iterations as u32 == limit => "returns -1 although decoding succeeded on the last allowed iteration",
                    (Ok(_), -1) => "returns -1 although decoding succeeded",
                    (Err(_), r) if r >= 0 => "returns an iteration count although decoding failed",
                    _ => "returns a different iteration count",
                };
                l.violation(format!("C decoder {}", kind), det(kind));
                break;
            }
            if out[..] != want_word[..out_len] {
                l.violation(
                    format!("C decoder output is not the leading bits of the word the Rust decoder returns ({}call on the handle)", if step == 0 { "first " } else { "repeated " }),
                    det("output"),
                );
                break;
            }
            if step > 0 {
                let mut d = Dig::new();
                d.s(name).entries(&m.e).fs(&llrs).u(limit as u64).u(out_len as u64);
                l.nt(d.get());
            }
        }
        unsafe { ldpc_toolbox_decoder_dtor(hd) };
        l.sample(|| det0().set("history", J::A(hist.iter().take(2).cloned().collect())));
    }
    if via_file {
        let _ = std::fs::remove_file(&path);
    }
}

fn encoder_matrix(rng: &mut Rng) -> Mat {
    // staircase or invertible dense (lower-triangular) tail
    let r = rng.range(1, 8);
    let n = r + rng.range(1, 12);
    let k = n - r;
    let mut e = Vec::new();
    for c in 0..k {
        for j in { let kk = rng.range(1, 3.min(r)); rng.choose(r, kk) } {
            e.push((j, c));
        }
    }
    if rng.coin() {
        for j in 0..r {
            e.push((j, k + j));
            if j > 0 {
                e.push((j, k + j - 1));
            }
        }
        Mat::new(r, n, e, "staircase")
    } else {
        for j in 0..r {
            e.push((j, k + j));
            for jj in 0..j {
                if rng.chance(0.4) {
                    e.push((j, k + jj));
                }
            }
        }
        Mat::new(r, n, e, "dense-tail")
    }
}

fn encoder_case(l: &mut Local, rng: &mut Rng, via_file: bool) {
    let m = encoder_matrix(rng);
    let h = m.to_sparse();
    let alist = h.alist();
    let pattern = gen_pattern(rng, m.cols);
    let ps = pattern_str(&pattern);
    let k = m.cols - m.rows;
    mark(&format!("encoder on {}x{} punct {:?} file {}", m.rows, m.cols, ps, via_file));
    let path = format!("/verif/target/legs/c19-{}-{}.alist", std::process::id(), rng.next_u64());
    if via_file {
        let _ = std::fs::create_dir_all("/verif/target/legs");
        std::fs::write(&path, &alist).expect("write alist");
    }
    let (ca, cp, cpath) = (cs(alist.as_bytes()), cs(ps.as_bytes()), cs(path.as_bytes()));
    l.eval();
    let he = unsafe {
        if via_file { ldpc_toolbox_encoder_ctor(cpath.as_ptr(), cp.as_ptr()) } else { ldpc_toolbox_encoder_ctor_alist_string(ca.as_ptr(), cp.as_ptr()) }
    };
    let det0 = || m.json().set("puncturing", ps.clone()).set("constructor", if via_file { "file" } else { "string" });
    if he.is_null() {
        l.violation("encoder constructor returns null for a valid (alist, puncturing) pair", det0());
        return;
    }
    let enc = Encoder::from_h(&h).expect("encoder");
    let punct = pattern.as_ref().map(|p| Puncturer::new(p));
    for rep in 0..4 {
        let mut msg: Vec<u8> = (0..k).map(|_| rng.coin() as u8).collect();
        // "every buffer contents": bytes other than 0 and 1 (read as bit 0, like the Rust side's conversion does);
        // the output must still consist of 0/1 bytes only
        if rep == 3 && k > 0 {
            for _ in 0..rng.range(1, 3) {
                let i = rng.below(k);
                msg[i] = *rng.pick(&[2u8, 255, 0x80, 3, 0x31]);
            }
        }
        let word = enc.encode(&to_gf2(&msg));
        let want: Vec<u8> = match &punct {
            None => from_gf2(&word),
            Some(p) => from_gf2(&p.puncture(&word).unwrap()),
        };
        let mut out = vec![0xAAu8; want.len()].into_boxed_slice();
        let inp: Box<[u8]> = msg.clone().into_boxed_slice();
        l.eval();
        unsafe { ldpc_toolbox_encoder_encode(he, out.as_mut_ptr(), out.len(), inp.as_ptr(), inp.len()) };
        if out[..] != want[..] {
            l.violation(
                format!("C encoder does not write the punctured systematic codeword of the Rust encoder ({}call on the handle)", if rep == 0 { "first " } else { "repeated " }),
                det0().set("message", msg.clone()).set("c_output", out.to_vec()).set("rust", want.clone()),
            );
            break;
        }
        let mut d = Dig::new();
        d.entries(&m.e).s(&ps);
        for &b in &msg {
            d.u(b as u64);
        }
        l.nt(d.get());
    }
    unsafe { ldpc_toolbox_encoder_dtor(he) };
    if via_file {
        let _ = std::fs::remove_file(&path);
    }
}

/// constructors must return null exactly when the Rust API rejects the arguments
fn ctor_failures(l: &mut Local, rng: &mut Rng) {
    let good = genm::textbook().to_sparse().alist();
    let enc_good = {
        let m = Mat::new(2, 4, vec![(0, 0), (0, 1), (0, 2), (1, 1), (1, 2), (1, 3)], "enc");
        m.to_sparse().alist()
    };
    let singular = {
        // last two columns equal -> singular tail
        let m = Mat::new(2, 4, vec![(0, 0), (0, 2), (0, 3), (1, 1), (1, 2), (1, 3)], "singular");
        assert!(!tail_invertible(2, 4, &m.e));
        m.to_sparse().alist()
    };
    let bad_alists: Vec<Vec<u8>> = vec![
        b"".to_vec(),
        b"x y\n".to_vec(),
        b"6 4\n".to_vec(),
        b"3 2\n1 1\n1 1 1\n1 1\n5\n1\n2\n".to_vec(),
        b"6\n".to_vec(),
        good.as_bytes()[..good.len() / 2].to_vec(),
        b"6 4\n2 3\n2 2 2 2 2 2\n3 3 3 3\n1 x\n".to_vec(),
        vec![0xff, 0xfe, b'\n'],
        b"2 2\n1 1\n1 1\n1 1\n3\n1\n".to_vec(),
    ];
    let bad_patterns: Vec<Vec<u8>> = vec![
        b"1,2".to_vec(),
        b"1,,0".to_vec(),
        b"a".to_vec(),
        b"1,0,".to_vec(),
        b",1".to_vec(),
        b"1 0".to_vec(),
        b" ".to_vec(),
        b"1,0 ".to_vec(),
        b"true,false".to_vec(),
        vec![0xff],
        vec![b'1', b',', b'1', b',', b'0', 0xff],
        b"1;0".to_vec(),
        b"01".to_vec(),
    ];
    let names = all_names();
    let mut bad_impls: Vec<Vec<u8>> = vec![b"".to_vec(), b"phif64".to_vec(), b"Phif64 ".to_vec(), b" Phif64".to_vec(), b"Phif64\n".to_vec(), b"\tAminstari8\r\n".to_vec(), b"HLAminstari8Jones".to_vec(), b"Phif".to_vec(), vec![b'P', 0xff]];
    for _ in 0..6 {
        let n = rng.pick(&names).clone();
        bad_impls.push(format!("{} ", n).into_bytes());
        bad_impls.push(format!(" {}", n).into_bytes());
        bad_impls.push(n.to_lowercase().into_bytes());
    }
    let good_pat = b"1,1,0".to_vec(); // 6 columns / 3 blocks
    let good_impl = b"Phif64".to_vec();
    let check = |l: &mut Local, what: &str, is_null: bool, expect_null: bool, args: String| {
        l.eval();
        if is_null != expect_null {
            l.violation(
                if expect_null { format!("constructor does not return null for {}", what) } else { format!("constructor returns null for {}", what) },
                J::obj().set("arguments", args),
            );
        } else {
            let mut d = Dig::new();
            d.s(what).s(&args);
            l.nt(d.get());
        }
    };
    let dctor = |a: &[u8], i: &[u8], p: &[u8]| -> bool {
        let (ca, ci, cp) = (cs(a), cs(i), cs(p));
        let h = unsafe { ldpc_toolbox_decoder_ctor_alist_string(ca.as_ptr(), ci.as_ptr(), cp.as_ptr()) };
        if !h.is_null() {
            unsafe { ldpc_toolbox_decoder_dtor(h) };
        }
        h.is_null()
    };
    let ector = |a: &[u8], p: &[u8]| -> bool {
        let (ca, cp) = (cs(a), cs(p));
        let h = unsafe { ldpc_toolbox_encoder_ctor_alist_string(ca.as_ptr(), cp.as_ptr()) };
        if !h.is_null() {
            unsafe { ldpc_toolbox_encoder_dtor(h) };
        }
        h.is_null()
    };
    // valid controls
    mark("ctor controls");
    check(l, "a valid decoder triple", dctor(good.as_bytes(), &good_impl, &good_pat), false, "valid".into());
    check(l, "a valid decoder triple without puncturing", dctor(good.as_bytes(), &good_impl, b""), false, "valid".into());
    check(l, "a valid encoder pair", ector(enc_good.as_bytes(), b"1,1"), false, "valid".into());
    for (i, a) in bad_alists.iter().enumerate() {
        mark(&format!("ctor malformed alist #{}", i));
        // expectation from the Rust API: does from_alist reject what C would see?
        let seen = String::from_utf8_lossy(cs(a).as_bytes()).to_string();
        let rust_rejects = !matches!(guard(|| ldpc_toolbox::sparse::SparseMatrix::from_alist(&seen)), Ok(Ok(_)));
        if rust_rejects {
            check(l, "malformed alist text (decoder)", dctor(a, &good_impl, b""), true, format!("alist {:?}", String::from_utf8_lossy(a)));
            check(l, "malformed alist text (encoder)", ector(a, b""), true, format!("alist {:?}", String::from_utf8_lossy(a)));
        }
    }
    for (i, p) in bad_patterns.iter().enumerate() {
        mark(&format!("ctor malformed pattern #{}", i));
        check(l, "a malformed puncturing pattern (decoder)", dctor(good.as_bytes(), &good_impl, p), true, format!("pattern {:?}", String::from_utf8_lossy(p)));
        check(l, "a malformed puncturing pattern (encoder)", ector(enc_good.as_bytes(), p), true, format!("pattern {:?}", String::from_utf8_lossy(p)));
    }
    for (i, im) in bad_impls.iter().enumerate() {
        mark(&format!("ctor unknown implementation #{}", i));
        check(l, "an unknown implementation name", dctor(good.as_bytes(), im, b""), true, format!("implementation {:?}", String::from_utf8_lossy(im)));
    }
    mark("ctor all 36 names");
    for n in &names {
        check(l, "a documented implementation name", dctor(good.as_bytes(), n.as_bytes(), b""), false, n.clone());
    }
    mark("ctor singular tail");
    check(l, "a matrix whose last columns are singular (encoder)", ector(singular.as_bytes(), b""), true, "singular tail".into());
    check(l, "a matrix whose last columns are singular but which is fine for the decoder", dctor(singular.as_bytes(), &good_impl, b""), false, "singular tail, decoder".into());
    mark("ctor unreadable file");
    let missing = cs(b"/verif/target/legs/definitely-missing.alist");
    let dirp = cs(b"/verif/target");
    for pth in [&missing, &dirp] {
        let (ci, cp) = (cs(&good_impl), cs(b""));
        let h1 = unsafe { ldpc_toolbox_decoder_ctor(pth.as_ptr(), ci.as_ptr(), cp.as_ptr()) };
        check(l, "an unreadable alist file (decoder)", h1.is_null(), true, format!("{:?}", pth));
        if !h1.is_null() {
            unsafe { ldpc_toolbox_decoder_dtor(h1) };
        }
        let h2 = unsafe { ldpc_toolbox_encoder_ctor(pth.as_ptr(), cp.as_ptr()) };
        check(l, "an unreadable alist file (encoder)", h2.is_null(), true, format!("{:?}", pth));
        if !h2.is_null() {
            unsafe { ldpc_toolbox_encoder_dtor(h2) };
        }
    }
    // ctor/dtor cycles (leaks are seen by the Miri / valgrind legs)
    mark("ctor/dtor cycles");
    let cycles = if cfg!(miri) { 3 } else { 300 };
    for _ in 0..cycles {
        l.eval();
        if dctor(good.as_bytes(), b"HLAminstari8", &good_pat) {
            l.violation("constructor returns null for a valid decoder triple", J::obj().set("arguments", "cycle"));
            break;
        }
    }
}

/// The work that touches the C interface; runs in the child process.
fn capi_leg(run: &mut Run) {
    let names = all_names();
    let miri = cfg!(miri);
    let n = if miri { 2 } else { run.tier.n(1500, 40_000) };
    let names2 = names.clone();
    let thorough = run.tier == crate::ctx::Tier::Thorough;
    run.sub_seq("decoder-differential", n, move |l, idx, rng| {
        // every tenth case: a longer code whose length is a multiple of 7, 9, 11 or 14 (patterns of that many blocks:
        // their rates are not exact in floating point, so nothing may be derived from a rounded rate)
        let m = if idx % 10 == 7 && !cfg!(miri) {
            let blocks = *rng.pick(&[7usize, 9, 11, 14]);
            let n = blocks * rng.range(2, 14);
            let r = rng.range(3, n / 3);
            let mut e: Vec<(usize, usize)> = Vec::new();
            for c in 0..n {
                for j in rng.choose(r, 2.min(r)) {
                    e.push((j, c));
                }
            }
            let mut mm = Mat::new(r, n, e, "longer-code-odd-block-count");
            // every check must involve at least two bits
            for j in 0..r {
                while mm.e.iter().filter(|x| x.0 == j).count() < 2 {
                    let c = rng.below(n);
                    if !mm.e.contains(&(j, c)) {
                        mm.e.push((j, c));
                    }
                }
            }
            Mat::new(r, n, mm.e, "longer-code-odd-block-count")
        } else if idx % 2 == 0 {
            genm::textbook()
        } else {
            genm::decoder_matrix(rng, 6, 12)
        };
        // all 36 names on the first matrices, a random subset afterwards
        let subset: Vec<String> = if cfg!(miri) {
            vec![names2[(idx as usize * 7) % 36].clone(), names2[(idx as usize * 7 + 25) % 36].clone()]
        } else if idx < 2 || thorough && idx < 50 {
            names2.clone()
        } else {
            rng.choose(36, 6).into_iter().map(|i| names2[i].clone()).collect()
        };
        decoder_case(l, &m, &subset, rng, idx % 5 == 4);
    });
    let ne = if miri { 2 } else { run.tier.n(20_000, 500_000) };
    run.sub_seq("encoder-differential", ne, |l, idx, rng| encoder_case(l, rng, idx % 5 == 4));
    run.sub_seq("constructor-failures", 1, |l, _i, rng| ctor_failures(l, rng));
    if !cfg!(miri) {
        let names3 = all_names();
        let nh = run.tier.n(40, 1000);
        run.sub_seq("file-constructor-history", nh, move |l, _i, rng| file_history_case(l, rng, &names3));
    }
}

/// write the case file and the expected output for the C driver (ASan / valgrind legs)
fn gen_c_cases(run: &mut Run, dir: &str) {
    let mut cases = String::new();
    let mut expect = String::new();
    let mut rng = Rng::keyed(run.seed, "C19", "c-cases", 0);
    let names = all_names();
    let ncases = run.tier.n(60, 400);
    for i in 0..ncases {
        if i % 3 == 2 {
            // encoder
            let m = encoder_matrix(&mut rng);
            let h = m.to_sparse();
            let pattern = gen_pattern(&mut rng, m.cols);
            let ps = pattern_str(&pattern);
            let k = m.cols - m.rows;
            let enc = Encoder::from_h(&h).unwrap();
            let msg: Vec<u8> = (0..k).map(|_| rng.coin() as u8).collect();
            let word = enc.encode(&to_gf2(&msg));
            let want: Vec<u8> = match &pattern {
                None => from_gf2(&word),
                Some(p) => from_gf2(&Puncturer::new(p).puncture(&word).unwrap()),
            };
            cases.push_str(&format!("E {} {} {}\n{}\n{}\n", if ps.is_empty() { "-" } else { &ps }, k, want.len(), h.alist().replace('\n', "|"), msg.iter().map(|b| b.to_string()).collect::<String>()));
            expect.push_str(&format!("E {}\n", want.iter().map(|b| b.to_string()).collect::<String>()));
        } else {
            let m = if i % 2 == 0 { genm::textbook() } else { genm::decoder_matrix(&mut rng, 6, 12) };
            let h = m.to_sparse();
            let pattern = gen_pattern(&mut rng, m.cols);
            let ps = pattern_str(&pattern);
            let name = rng.pick(&names).clone();
            let cw = genm::random_codeword(&mut rng, &m);
            let cls = [0usize, 7, 5, 9][rng.below(4)];
            let full = genm::llr_vector(&mut rng, m.cols, cls, Some(&cw));
            let use_f32 = rng.chance(0.4);
            let mut llrs: Vec<f64> = match &pattern {
                None => full,
                Some(p) => Puncturer::new(p).puncture(&ndarray::Array1::from_vec(full)).unwrap().to_vec(),
            };
            if use_f32 {
                llrs = llrs.iter().map(|&x| x as f32 as f64).collect();
            }
            let limit = *rng.pick(&[0u32, 1, 2, 10]);
            let out_len = *rng.pick(&[m.cols, (m.cols - m.rows).max(1), 1]);
            let dep = match &pattern {
                None => llrs.clone(),
                Some(p) => Puncturer::new(p).depuncture(&llrs).unwrap(),
            };
            let im = DecoderImplementation::from_str(&name).unwrap();
            let res = im.build_decoder(h.clone()).decode(&dep, limit as usize);
            let (ret, word) = match &res {
                Ok(o) => (o.iterations as i32, o.codeword.clone()),
                Err(o) => (-1, o.codeword.clone()),
            };
            cases.push_str(&format!(
                "D {} {} {} {} {} {}\n{}\n{}\n",
                name,
                if ps.is_empty() { "-" } else { &ps },
                limit,
                out_len,
                use_f32 as u8,
                llrs.len(),
                h.alist().replace('\n', "|"),
                llrs.iter().map(|x| format!("{:e}", x)).collect::<Vec<_>>().join(" ")
            ));
            expect.push_str(&format!("D {} {}\n", ret, word[..out_len].iter().map(|b| b.to_string()).collect::<String>()));
        }
        run.merged.eval();
        let mut d = Dig::new();
        d.u(i);
        run.merged.nt(d.get());
    }
    // constructor failures seen from C
    for (a, i, p) in [("x y|", "Phif64", "-"), ("6 4|", "Phif64", "-"), ("GOOD", "nope", "-"), ("GOOD", "Phif64", "1,2"), ("GOOD", "Phif64", "1,,0")] {
        let alist = if a == "GOOD" { genm::textbook().to_sparse().alist().replace('\n', "|") } else { a.to_string() };
        cases.push_str(&format!("N {} {}\n{}\n-\n", i, p, alist));
        expect.push_str("N NULL\n");
    }
    cases.push_str(&format!("L 500\n{}\n-\n", genm::textbook().to_sparse().alist().replace('\n', "|")));
    expect.push_str("L done\n");
    let _ = std::fs::create_dir_all(dir);
    std::fs::write(format!("{}/C19.cases.txt", dir), cases).expect("write cases");
    std::fs::write(format!("{}/C19.expected.txt", dir), expect).expect("write expected");
}

pub fn run(run: &mut Run, extra: &[String]) {
    run.rule = "exported ldpc_toolbox_* symbols called through extern \"C\" declarations in a child process (an abort inside the C interface is observed, not fatal): decoder = all 36 names on the textbook matrix and random matrices (string and file constructors, padded/unpadded alists, puncturing patterns of length 1..16 dividing n with >= 1 kept block (every tenth case a code of 14..196 bits whose length is a multiple of 7, 9, 11 or 14), none), histories of 2..6 calls on ONE handle (f64 and f32 entry points, f32 values representable, 6 % of the calls with two or three infinite LLRs, limits {0,1,2,5,20}, output_len in {n, k, 1, random}) each compared with a FRESH Rust decoder on the depunctured LLRs; encoder = staircase and dense-tail matrices, 4 messages per handle (the last with bytes other than 0/1) vs Rust Encoder + Puncturer; constructors: null for malformed alists (judged against the Rust parser), malformed patterns (\"1,2\", \"1,,0\", \"a\", trailing comma, spaces, non-UTF-8 bytes), unknown names (case, padding whitespace, HL+flooding-only), unreadable files, a file replaced by other contents (also of the same length with the same modification time) between two constructor calls on one path, singular tail (encoder only), non-null for valid controls and all 36 names; exactly sized heap buffers; C driver under clang ASan/UBSan and valgrind memcheck replays generated cases from C through the shipped header; non-trivial = repeated call on a handle / encode / constructor case".into();
    run.assumptions = vec![
        "inputs outside the stated contract (output_len > n, wrong llrs_len, pattern not dividing n, all-zero pattern) are not generated".into(),
    ];
    match run.leg.as_deref() {
        Some("capi") | Some("miri") => {
            capi_leg(run);
            return;
        }
        Some("gen") => {
            let dir = extra.iter().position(|a| a == "--dir").and_then(|i| extra.get(i + 1)).cloned().unwrap_or("/verif/target/legs".into());
            gen_c_cases(run, &dir);
            return;
        }
        _ => {}
    }
    if run.replay.is_some() {
        capi_leg(run);
        return;
    }
    // main mode: run the C-interface work in a child of this very binary and integrate its log
    let exe = std::env::current_exe().expect("current_exe");
    let log = "/verif/target/legs/C19.capi.log".to_string();
    let _ = std::fs::create_dir_all("/verif/target/legs");
    let out = std::process::Command::new(exe)
        .args(["C19", "--tier", run.tier.name(), "--seed", &run.seed.to_string(), "--leg", "capi"])
        .env("LV_VERBOSE", "1")
        .output();
    match out {
        Err(e) => run.merged.inconclusive(format!("cannot spawn the C-interface child: {}", e)),
        Ok(o) => {
            use std::os::unix::process::ExitStatusExt;
            let code = o.status.code().unwrap_or_else(|| 128 + o.status.signal().unwrap_or(0));
            let mut text = String::from_utf8_lossy(&o.stdout).to_string();
            text.push_str(&String::from_utf8_lossy(&o.stderr));
            let _ = std::fs::write(&log, &text);
            let _ = std::fs::write(format!("{}.status", log), format!("{}\n", code));
            run.integrate_leg("capi", &log);
        }
    }
}
