//! C18 – each decoder implementation name builds the arithmetic and schedule it names.

use crate::ctx::{Local, Run, guard, panic_class};
use crate::genm::{self, Mat};
use crate::impls::{all_names, direct};
use crate::json::{J, jfs};
use crate::rng::{Dig, Rng};
use clap::ValueEnum;
use ldpc_toolbox::decoder::DecoderOutput;
use ldpc_toolbox::decoder::factory::{DecoderFactory, DecoderImplementation};
use std::str::FromStr;

type Res = Result<DecoderOutput, DecoderOutput>;

fn digest_res(r: &Res) -> u64 {
    let mut d = Dig::new();
    match r {
        Ok(o) => {
            d.u(1).u(o.iterations as u64);
            for &b in &o.codeword {
                d.u(b as u64);
            }
        }
        Err(o) => {
            d.u(2).u(o.iterations as u64);
            for &b in &o.codeword {
                d.u(b as u64);
            }
        }
    }
    d.get()
}

#[derive(Clone)]
struct Input {
    m: Mat,
    llrs: Vec<f64>,
    limit: usize,
}

fn gen_input(rng: &mut Rng, k: u64) -> Input {
    // directed classes aimed at the distinctions between implementations
    let m = match k % 6 {
        0 => genm::textbook(),
        1 => {
            // degree-1 columns (Deg1Clip) attached to small checks
            let rows = rng.range(2, 4);
            let cols = rows + rng.range(2, 5);
            let mut e = Vec::new();
            for r in 0..rows {
                e.push((r, r)); // degree-1-ish private column
                e.push((r, rows + rng.below(cols - rows)));
                e.push((r, rows + rng.below(cols - rows)));
            }
            let mut m = Mat::new(rows, cols, e, "deg1-columns");
            // make sure every row has weight >= 2
            for r in 0..rows {
                if m.e.iter().filter(|x| x.0 == r).count() < 2 {
                    m.e.push((r, (r + 1) % cols));
                }
            }
            Mat::new(rows, cols, m.e, "deg1-columns")
        }
        2 => {
            // heavy columns (Jones clipping: sums beyond 127)
            let rows = rng.range(3, 6);
            let cols = rng.range(3, 6);
            let mut e = Vec::new();
            for r in 0..rows {
                for c in 0..cols {
                    if rng.chance(0.75) {
                        e.push((r, c));
                    }
                }
            }
            let mut m = Mat::new(rows, cols, e, "dense-small");
            for r in 0..rows {
                while m.e.iter().filter(|x| x.0 == r).count() < 2 {
                    let c = rng.below(cols);
                    if !m.e.contains(&(r, c)) {
                        m.e.push((r, c));
                    }
                }
            }
            Mat::new(rows, cols, m.e, "dense-small")
        }
        _ => genm::decoder_matrix(rng, 5, 10),
    };
    let n = m.cols;
    let cw = genm::random_codeword(rng, &m);
    let sgn = |b: u8| if b == 1 { -1.0 } else { 1.0 };
    let llrs: Vec<f64> = match rng.below(8) {
        0 => (0..n).map(|i| sgn(cw[i]) * rng.uniform(11.0, 16.5) * if rng.chance(0.25) { -1.0 } else { 1.0 }).collect(), // saturating, confident errors
        1 => (0..n).map(|i| sgn(cw[i]) * rng.uniform(13.0, 15.9) * if rng.chance(0.15) { -0.2 } else { 1.0 }).collect(),
        2 => (0..n).map(|i| sgn(cw[i]) * (1.0 + rng.unit() * 1e-7) * if rng.chance(0.3) { -1.0 } else { 1.0 }).collect(), // f32/f64 separation
        3 => (0..n).map(|_| rng.uniform(-20.0, 20.0)).collect(),
        4 => (0..n).map(|_| rng.uniform(-2.0, 2.0)).collect(),
        5 => (0..n).map(|i| sgn(cw[i]) * rng.uniform(0.05, 1.0) * if rng.chance(0.3) { -1.0 } else { 1.0 }).collect(),
        6 => (0..n).map(|_| rng.uniform(-40.0, 40.0)).collect(), // phi/tanh saturation
        _ => (0..n).map(|_| (rng.irange(-130, 130) as f64) / 8.0).collect(),
    };
    let limit = *rng.pick(&[1usize, 2, 2, 3, 5, 8, 20]);
    Input { m, llrs, limit }
}

fn names_checks(l: &mut Local, names: &[String], rng: &mut Rng) {
    // exactly the 36 names
    let variants = DecoderImplementation::value_variants();
    l.eval();
    let vnames: Vec<String> = variants.iter().map(|v| v.to_string()).collect();
    let mut a = vnames.clone();
    a.sort();
    let mut b = names.to_vec();
    b.sort();
    if a != b {
        let missing: Vec<&String> = b.iter().filter(|x| !a.contains(x)).collect();
        let extra: Vec<&String> = a.iter().filter(|x| !b.contains(x)).collect();
        l.violation(
            "value_variants() is not exactly the 36 documented names",
            J::obj().set("missing", format!("{:?}", missing)).set("unexpected", format!("{:?}", extra)).set("count", variants.len()),
        );
    }
    for n in names {
        l.eval();
        match <DecoderImplementation as FromStr>::from_str(n) {
            Err(e) => l.violation("a documented name does not parse", J::obj().set("name", n.clone()).set("error", e)),
            Ok(v) => {
                if v.to_string() != *n {
                    l.violation("a name does not print back to the identical string", J::obj().set("name", n.clone()).set("printed", v.to_string()));
                }
                match v.to_possible_value() {
                    None => l.violation("to_possible_value() is None for a name", J::obj().set("name", n.clone())),
                    Some(pv) => {
                        if pv.get_name() != n {
                            l.violation("command-line value name differs from the implementation name", J::obj().set("name", n.clone()).set("cli_name", pv.get_name()));
                        }
                    }
                }
                // clap's own parser (what the CLI uses)
                match <DecoderImplementation as ValueEnum>::from_str(n, false) {
                    Ok(v2) if v2 == v => {}
                    other => l.violation("clap ValueEnum::from_str disagrees with FromStr", J::obj().set("name", n.clone()).set("got", format!("{:?}", other))),
                }
                let mut d = Dig::new();
                d.s(n);
                l.nt(d.get());
            }
        }
    }
    // non-member strings must be rejected
    let mut bad: Vec<String> = vec![
        "".into(), " ".into(), "phif64".into(), "PHIF64".into(), "Phif".into(), "Phif64 ".into(), " Phif64".into(), "Phif128".into(), "HL".into(),
        "HLphif64".into(), "hlPhif64".into(), "HLHLPhif64".into(), "Phif64HL".into(), "Minstarapproxi16".into(), "Aminstar".into(), "Tanh".into(),
        "Phif64\n".into(), "Phif64\0".into(), "Рhif64".into(),
    ];
    // HL + flooding-only arithmetic names
    for a in crate::impls::ARITH_NAMES {
        if !crate::impls::HL_ARITH.contains(&a) {
            bad.push(format!("HL{}", a));
        }
    }
    for n in names {
        bad.push(n.to_lowercase());
        bad.push(n.to_uppercase());
        bad.push(n[..n.len() - 1].to_string());
        bad.push(format!("{}x", n));
        // one character changed
        let mut ch: Vec<char> = n.chars().collect();
        let i = rng.below(ch.len());
        ch[i] = if ch[i] == 'x' { 'y' } else { 'x' };
        bad.push(ch.into_iter().collect());
    }
    for s in bad {
        if names.contains(&s) {
            continue;
        }
        l.eval();
        if let Ok(v) = <DecoderImplementation as FromStr>::from_str(&s) {
            l.violation("a string that is not one of the 36 names parses", J::obj().set("string", s.clone()).set("parsed_as", v.to_string()));
        }
        if let Ok(v) = <DecoderImplementation as ValueEnum>::from_str(&s, false) {
            l.violation("a string that is not one of the 36 names is accepted by the command-line value parser", J::obj().set("string", s.clone()).set("parsed_as", v.to_string()));
        }
        l.count("non_member_strings_rejected");
    }
}

/// the C constructors must accept exactly the 36 names (runs in a child process: a panic inside extern "C" aborts)
fn capi_names(l: &mut Local, names: &[String], rng: &mut Rng) {
    let alist = genm::textbook().to_sparse().alist();
    for n in names {
        println!("CASE C name {}", n);
        l.eval();
        if crate::props::c19::c_decoder_ctor_is_null(alist.as_bytes(), n.as_bytes(), b"") {
            l.violation("the C decoder constructor rejects a documented implementation name", J::obj().set("name", n.clone()));
        } else {
            let mut d = Dig::new();
            d.s("c").s(n);
            l.nt(d.get());
        }
    }
    // the decoder built by the C constructor for a name behaves like the directly constructed generic decoder
    let m = genm::textbook();
    let cw = genm::random_codeword(rng, &m);
    for n in names {
        println!("CASE C decode {}", n);
        for k in 0..8 {
            let class = [7usize, 0, 9, 4][k % 4];
            let llrs = genm::llr_vector(rng, m.cols, class, Some(&cw));
            let limit = [0u32, 1, 1, 2, 2, 3, 5, 20][k];
            let Some(mut dd) = direct(n, m.to_sparse()) else { continue };
            let want = dd.decode(&llrs, limit as usize);
            let (wret, wword) = match &want {
                Ok(o) => (o.iterations as i32, o.codeword.clone()),
                Err(o) => (-1, o.codeword.clone()),
            };
            l.eval();
            match crate::props::c19::c_decode_once(alist.as_bytes(), n.as_bytes(), &llrs, limit, m.cols) {
                None => {}
                Some((ret, out)) => {
                    if ret != wret || out != wword {
                        l.violation(
                            "the decoder built by the C constructor for a name does not behave like the generic decoder the name denotes",
                            J::obj().set("name", n.clone()).set("llrs", jfs(&llrs)).set("limit", limit).set("c_return", ret).set("c_output", out).set("generic", format!("{:?}", want)),
                        );
                        break;
                    }
                }
            }
        }
    }
    // ... and through the single-precision entry point (the values, infinities included, are exactly representable in
    // both widths, so the generic decoder on the widened values is the reference)
    for n in names {
        println!("CASE C decode f32 {}", n);
        for k in 0..6 {
            let mut l32: Vec<f32> = genm::llr_vector(rng, m.cols, [7usize, 0, 4][k % 3], Some(&cw)).iter().map(|&x| x as f32).collect();
            if k >= 3 {
                // two infinite LLRs on variables that share a check, plus possibly a third
                let rr = rng.below(m.rows);
                let row0: Vec<usize> = m.e.iter().filter(|x| x.0 == rr).map(|x| x.1).collect();
                for &v in row0.iter().take(2) {
                    l32[v] = if rng.coin() { f32::INFINITY } else { f32::NEG_INFINITY };
                }
                if rng.coin() {
                    let v = rng.below(m.cols);
                    l32[v] = f32::INFINITY;
                }
            }
            let wide: Vec<f64> = l32.iter().map(|&x| x as f64).collect();
            let limit = [1u32, 2, 5, 1, 3, 20][k];
            let Some(mut dd) = direct(n, m.to_sparse()) else { continue };
            let Ok(want) = guard(|| dd.decode(&wide, limit as usize)) else {
                l.count("generic_decoder_panics_on_infinite_input_case_skipped");
                continue;
            };
            let (wret, wword) = match &want {
                Ok(o) => (o.iterations as i32, o.codeword.clone()),
                Err(o) => (-1, o.codeword.clone()),
            };
            l.eval();
            if let Some((ret, out)) = crate::props::c19::c_decode_once_f32(alist.as_bytes(), n.as_bytes(), &l32, limit, m.cols) {
                if ret != wret || out != wword {
                    l.violation(
                        "the decoder built by the C constructor for a name does not behave like the generic decoder the name denotes (single-precision entry point)",
                        J::obj().set("name", n.clone()).set("llrs", jfs(&wide)).set("limit", limit).set("c_return", ret).set("c_output", out).set("generic", format!("{:?}", want)),
                    );
                    break;
                }
                l.count("c_f32_decodes_compared");
            }
        }
    }
    // ... also when built by the FILE constructor, with the same path holding two different codes one after the other
    {
        let path = format!("/verif/target/legs/c18-names-{}.alist", std::process::id());
        let _ = std::fs::create_dir_all("/verif/target/legs");
        let m2 = Mat::new(4, 6, vec![(0, 0), (0, 2), (0, 4), (1, 1), (1, 2), (1, 5), (2, 0), (2, 3), (2, 5), (3, 1), (3, 3), (3, 4)], "second-4x6");
        for (step, mm) in [&m, &m2, &m].into_iter().enumerate() {
            std::fs::write(&path, mm.to_sparse().alist()).expect("write alist");
            let cw2 = genm::random_codeword(rng, mm);
            for n in names.iter().step_by(5) {
                println!("CASE C file ctor step {} {}", step, n);
                let llrs = genm::llr_vector(rng, mm.cols, 7, Some(&cw2));
                let Some(mut dd) = direct(n, mm.to_sparse()) else { continue };
                let want = dd.decode(&llrs, 3);
                let (wret, wword) = match &want {
                    Ok(o) => (o.iterations as i32, o.codeword.clone()),
                    Err(o) => (-1, o.codeword.clone()),
                };
                l.eval();
                if let Some((ret, out)) = crate::props::c19::c_decode_once_file(&path, n.as_bytes(), &llrs, 3, mm.cols) {
                    if ret != wret || out != wword {
                        l.violation(
                            "the decoder built by the C file constructor for a name does not behave like the generic decoder on the matrix the file contains",
                            J::obj().set("name", n.clone()).set("step", step).set("c_return", ret).set("generic", format!("{:?}", want)),
                        );
                        break;
                    }
                }
            }
        }
        let _ = std::fs::remove_file(&path);
    }
    let mut bad: Vec<String> = vec!["".into(), "phif64".into(), "PHIF64".into(), "Phif64 ".into(), " Phif64".into(), "Phif64\n".into(), "\tAminstari8\r\n".into(), "HLAminstari8Jones".into(), "HLPhif64 ".into(), "Phif".into()];
    for n in names {
        bad.push(format!("{} ", n));
        bad.push(format!(" {}", n));
        bad.push(format!("{}\n", n));
        bad.push(n.to_lowercase());
        let mut ch: Vec<char> = n.chars().collect();
        let i = rng.below(ch.len());
        ch[i] = if ch[i] == 'x' { 'y' } else { 'x' };
        bad.push(ch.into_iter().collect());
    }
    for s in bad {
        if names.contains(&s) {
            continue;
        }
        println!("CASE C non-member {:?}", s);
        l.eval();
        if !crate::props::c19::c_decoder_ctor_is_null(alist.as_bytes(), s.as_bytes(), b"") {
            l.violation("the C decoder constructor accepts a string that is not one of the 36 names", J::obj().set("string", s.clone()));
        }
        l.count("c_non_member_strings_rejected");
    }
}

pub fn run(run: &mut Run) {
    if run.leg.as_deref() == Some("capi-names") {
        let names = all_names();
        run.sub_seq("c-constructor-names", 1, move |l, _i, rng| capi_names(l, &names, rng));
        return;
    }
    run.rule = "EXHAUSTIVE over the 36 names of the harness' own table (HL prefix = layered, rest = arithmetic type): parse, display, value_variants, to_possible_value, clap parser; non-member strings (case variants, prefixes, padding whitespace, HL + flooding-only names, one-character edits) must be rejected by FromStr, by the command-line value parser and by the C decoder constructor (child process); behaviour: for a family of inputs (directed at f32/f64, Jones, Deg1Clip, partial hard limit, A-Min* vs min*, phi vs tanh saturation, flooding vs layered) the decoder from build_decoder must return exactly what the directly constructed generic decoder returns, and the family must separate every one of the 630 pairs of directly constructed decoders (unseparated pairs are reported inconclusive by name); non-trivial = every name, and every (name,input) on which the direct decoder iterates".into();
    run.exhaustive = Some(true);
    let names = all_names();
    let names2 = names.clone();
    run.sub_seq("names", 1, move |l, _i, rng| names_checks(l, &names2, rng));

    // behaviour: family of inputs
    let nfam = if cfg!(miri) { 6 } else { run.tier.n(40_000, 1_200_000) } as usize;
    let seed = run.seed;
    let mut sigs: Vec<Vec<u64>> = vec![Vec::with_capacity(nfam); names.len()];
    let names3 = names.clone();
    let sigs_m = std::sync::Mutex::new(&mut sigs);
    // process in parallel chunks; each chunk returns per-name digests
    let chunk = 50usize;
    let nchunks = nfam.div_ceil(chunk);
    run.sub("behaviour", nchunks as u64, |l, idx, _rng| {
        let mut local: Vec<Vec<u64>> = vec![Vec::new(); names3.len()];
        for k in 0..chunk {
            let gi = idx as usize * chunk + k;
            if gi >= nfam {
                break;
            }
            let mut rng = Rng::keyed(seed, "C18", "family", gi as u64);
            let inp = gen_input(&mut rng, gi as u64);
            let h = if rng.coin() { inp.m.to_sparse() } else { inp.m.to_sparse_shuffled(&mut rng) };
            for (ni, n) in names3.iter().enumerate() {
                l.eval();
                let Some(mut dd) = direct(n, h.clone()) else {
                    l.violation("harness table has no direct constructor for a name", J::obj().set("name", n.clone()));
                    continue;
                };
                let want = guard(|| dd.decode(&inp.llrs, inp.limit));
                let Ok(im) = <DecoderImplementation as FromStr>::from_str(n) else { continue };
                let got = guard(|| {
                    let mut b = im.build_decoder(h.clone());
                    (format!("{:?}", b), b.decode(&inp.llrs, inp.limit))
                });
                match (got, want) {
                    (Ok((dbg, g)), Ok(w)) => {
                        if g != w {
                            l.violation(
                                format!("build_decoder({}) behaves differently from the directly constructed generic decoder", n),
                                inp.m.json().set("name", n.clone()).set("llrs", jfs(&inp.llrs)).set("limit", inp.limit).set("built", format!("{:?}", g)).set("direct", format!("{:?}", w)),
                            );
                        }
                        // corroboration through Debug: arithmetic struct name and schedule fields
                        let (layered, arith) = match n.strip_prefix("HL") {
                            Some(a) => (true, a),
                            None => (false, n.as_str()),
                        };
                        let names_arith = dbg.contains(&format!("arithmetic: {} ", arith)) || dbg.contains(&format!("arithmetic: {}{{", arith)) || dbg.contains(&format!("arithmetic: {},", arith));
                        let sched_ok = if layered { dbg.contains("check_messages: SentMessages") && !dbg.contains("variable_messages") } else { dbg.contains("variable_messages") };
                        if !names_arith || !sched_ok {
                            l.violation(
                                format!("Debug output of the decoder built for {} does not name its arithmetic/schedule", n),
                                J::obj().set("name", n.clone()).set("debug_head", dbg.chars().take(200).collect::<String>()),
                            );
                        }
                        local[ni].push(digest_res(&w));
                        if !matches!(&w, Ok(o) if o.iterations == 0) {
                            let mut d = Dig::new();
                            d.s(n).u(gi as u64);
                            l.nt(d.get());
                        }
                    }
                    (Err(p), _) | (Ok(_), Err(p)) => {
                        l.violation(format!("decode panicked: {}", panic_class(&p)), inp.m.json().set("name", n.clone()).set("llrs", jfs(&inp.llrs)).set("panic", p));
                        local[ni].push(0);
                    }
                }
            }
            if k == 0 {
                l.sample(|| inp.m.json().set("llrs", jfs(&inp.llrs)).set("limit", inp.limit));
            }
        }
        let mut g = sigs_m.lock().unwrap();
        for (ni, v) in local.into_iter().enumerate() {
            // order-independent accumulation: store (global index, digest) folded
            for (k, dgt) in v.into_iter().enumerate() {
                let gi = idx as usize * chunk + k;
                let mut d = Dig::new();
                d.u(gi as u64).u(dgt);
                g[ni].push(d.get());
            }
        }
    });
    drop(sigs_m);
    if run.replay.is_none() && run.leg.is_none() && !cfg!(miri) {
        // names through the C constructors, in a child process
        let exe = std::env::current_exe().expect("current_exe");
        let log = "/verif/target/legs/C18.capi-names.log".to_string();
        let _ = std::fs::create_dir_all("/verif/target/legs");
        match std::process::Command::new(exe).args(["C18", "--tier", run.tier.name(), "--seed", &run.seed.to_string(), "--leg", "capi-names"]).env("LV_VERBOSE", "1").output() {
            Err(e) => run.merged.inconclusive(format!("cannot spawn the C-interface child: {}", e)),
            Ok(o) => {
                use std::os::unix::process::ExitStatusExt;
                let code = o.status.code().unwrap_or_else(|| 128 + o.status.signal().unwrap_or(0));
                let mut text = String::from_utf8_lossy(&o.stdout).to_string();
                text.push_str(&String::from_utf8_lossy(&o.stderr));
                let _ = std::fs::write(&log, &text);
                let _ = std::fs::write(format!("{}.status", log), format!("{}\n", code));
                run.integrate_leg("capi-names", &log);
            }
        }
    }
    if run.replay.is_none() {
        // separation of all pairs
        let mut sets: Vec<std::collections::HashSet<u64>> = Vec::new();
        for s in &sigs {
            sets.push(s.iter().cloned().collect());
        }
        let mut separated = 0;
        let mut unsep = Vec::new();
        for i in 0..names.len() {
            for j in (i + 1)..names.len() {
                if sets[i] != sets[j] {
                    separated += 1;
                } else {
                    unsep.push(format!("{}~{}", names[i], names[j]));
                }
            }
        }
        run.extra("pairs_separated", separated);
        run.extra("pairs_total", names.len() * (names.len() - 1) / 2);
        run.extra("family_inputs", nfam);
        if !unsep.is_empty() && !cfg!(miri) {
            run.merged.inconclusive(format!("{} implementation pairs not separated by the input family: {}", unsep.len(), unsep.join(" ")));
        }
    }
}
