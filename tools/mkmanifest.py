#!/usr/bin/env python3
"""Regenerates /verif/MANIFEST.json from the table below (kept next to the checks so the two stay in sync)."""
import json, os

LEVEL_NOTE_COMMON = ("Trusted base: the harness' own oracles in /verif/harness/src/oracle.rs (bit-packed GF(2) elimination, plain BFS, "
                     "stable box-plus, brute-force posteriors) and the Rust toolchain; verdict is 'held on the executions described in the evidence file', not a proof.")

CHECKS = {
 "C01": ("reference-model monitor (own syndrome/sign-pattern oracle) over all 36 decoder names x generated matrices x hostile LLR vectors x limits, overflow-checked build",
         "Every decode result of every implementation name is judged by an independent syndrome computation on the entry list; sampling of an infinite input space with hostile float classes and matrix families, plus noisy frames on two real codes.", "4 C01"),
 "C02": ("reference-model monitor: bit-packed GF(2) rank of the tail + own syndrome + linearity, 12 matrix families; Miri leg on the ndarray paths",
         "from_h verdict compared with an independent rank computation for every generated H; every encoded word checked for prefix, syndrome and linearity.", "4 C02"),
 "C03": ("trace/spec checker: tracing DecoderArithmetic wrapper + online data-flow conformance checker, differential run against textbook schedules with an exact integer arithmetic, brute-force posteriors on forests",
         "The real generic decoders are driven with checker-supplied arithmetics through the public trait; the call trace is checked against the textbook schedule and results against a dense-table reference implementation.", "4 C03"),
 "C04": ("reference-model monitor: stable f64 box-plus oracle with analytic tolerances; exhaustive 8-bit degree 2 (and 3 in thorough); long-lived arithmetic objects with varying degrees",
         "send_check_messages of all 24 arithmetics is called directly on public Message values and compared with an exact box-plus oracle within stated tolerances.", "4 C04"),
 "C05": ("reference-model monitor: integer model of the saturating variable rule and quantiser, overflow-checked build (wrapping arithmetic becomes a panic), layered-vs-flooding consistency on one long-lived object",
         "Variable rule, quantiser, clipping and the layered primitive of all 24 arithmetics are compared with an integer/float model for generated and exhaustive small inputs.", "4 C05"),
 "C06": ("exhaustive enumeration of the 21 codes with structural monitors (dimensions, 360-shift law, degree profile, dual diagonal, 4-cycle detector, encoder type, girth) and pinned SHA-256 digests",
         "All 21 configurations are constructed and checked; the space is finite and fully enumerated.", "4 C06"),
 "C07": ("exhaustive enumeration of the 9 AR4JA codes and C2 with structural monitors (size, circulant law, protograph degrees, bit-packed rank, tail invertibility, encoder, girth) and pinned SHA-256 digests",
         "All 10 configurations are constructed and checked; the space is finite and fully enumerated.", "4 C07"),
 "C08": ("reference-model monitor: strict alist grammar checker + round trip against the entry list; parser totality under mutated/hostile strings with panics observed by catch_unwind; Miri leg",
         "Writer output of generated matrices is validated against a strict grammar and re-parsed; the parser is fed mutated alists and token soups and must return Ok/Err.", "4 C08"),
 "C09": ("reference-model monitor: own GF(2) rank, column-multiset comparison, tail invertibility, encoder acceptance; exhaustive small shapes",
         "parity_to_systematic is compared with an independent rank computation and permutation check on generated and exhaustively enumerated small matrices.", "4 C09"),
 "C10": ("history monitor: long-lived decoder vs freshly built decoder after every call of random call histories, all 36 names",
         "Each call of each history is replayed on a fresh decoder; any difference is a state leak.", "4 C10"),
 "C11": ("reference-model monitor: plain BFS and edge-removal local girth on an explicit adjacency list; all roots x all bounds per graph",
         "Every query of the girth/BFS API is compared with an independent graph oracle for all roots and bounds of each generated graph.", "4 C11"),
 "C12": ("trace monitors at public boundaries: decoder tap through DecoderFactory and modulation tap through the Modulation trait; statistical tests on the recorded noise with a stated false-alarm budget",
         "Every frame of every worker is observed at the modulator and at the decoder input and checked for ordering, exact zeros, sigma and noise statistics.", "4 C12"),
 "C13": ("offline checker over recorded event logs (scripted decoder log + zero-interval Reporter stream): exactly-once, FIFO, conservation, stop rule; failure injection; worker-count/affinity/delay stress; Miri many-seeds (data race, deadlock) and ThreadSanitizer legs",
         "The real BER engine runs under perturbed schedules with a scripted decoder; report differences identify consumed frames and all counters are recomputed from the consumed set.", "4 C13"),
 "C14": ("reference-model monitor: log-sum-exp posterior oracle over the constellation read from the public modulator; polar/log grids of samples and sigmas",
         "Demodulator outputs are compared with exact posterior log-ratios computed independently from the modulator's own constellation.", "4 C14"),
 "C15": ("exhaustive bounded enumeration with unique-tag inputs (the permutation is read off the output); Miri leg on the unsafe assume_init path",
         "All interleaver shapes <= 12x12 in both directions and all puncturing patterns of length <= 8 with block sizes 1..6 are enumerated.", "4 C15"),
 "C16": ("invariant monitors on construction results + PEG replay checker (own BFS at insertion time) + sequential re-run oracle for the rayon seed search under varied thread counts; TSan/Miri legs",
         "Every generated configuration's result is checked against the configuration; PEG edge choices are replayed against an independent BFS; search results are compared with sequential runs.", "4 C16"),
 "C17": ("history monitor: BTreeSet reference model driven by the same operation history, full query API compared after every operation; Miri leg",
         "Many short operation histories on tiny shapes; the whole observable state is compared with the set model after each operation.", "4 C17"),
 "C18": ("exhaustive over the 36 names + differential run of build_decoder against directly constructed generic decoders on a separating input family found by directed search",
         "All 36 names are enumerated; behaviour is compared with the directly constructed generic decoder on inputs that separate every pair of implementations.", "4 C18"),
 "C19": ("differential monitor through extern \"C\" declarations (native and Miri) + C driver with exactly sized heap buffers under clang ASan/UBSan and valgrind memcheck; constructor failures in child processes",
         "The exported C symbols are called and compared with the Rust API; memory behaviour on caller-owned buffers is watched by ASan/valgrind.", "4 C19"),
 "C20": ("differential monitor: child processes of the real binary built from the working tree, stdout/stderr/exit status/output files compared with the library's results",
         "Every subcommand is run in child processes; outputs are compared with what the library computes for the same arguments.", "4 C20"),
}

COMMON_TECH = ("; the same workload once more against the unchecked (no overflow checks / debug assertions) build of the library; "
               "the native workload runs in a supervised child process: a fatal signal or a call that burns its thread-CPU budget is replayed alone "
               "(or after the calls before it) in a fresh process and becomes a verdict")
EXTRA = {
 "C01": "; index-width size class (codes of 65540 / 131080 bits), largest iteration limits",
 "C02": "; index-width size class (more than 2^16 / 2^17 message bits), strided and reversed message views",
 "C03": "; single-parity-check stars of degree 33..79, objects built by Default, largest iteration limits",
 "C04": "; layered entry point judged alike, degrees up to 90, objects built by Default",
 "C05": "; exact ties and signed zeros in the layered clause, objects built by Default",
 "C06": "; thread-CPU-time form of the linear-time clause; construction inside rayon pools of 3/6/12 threads and parallel iterators; call-history pairs; fault injection at the CLI's output (size-limited file)",
 "C07": "; construction inside rayon pools of 3/6/12 threads and parallel iterators; call-history pairs; fault injection at the CLI's output (size-limited file)",
 "C08": "; call histories on one thread (valid text after a mutated one); address-space cap so that absurd allocations fail deterministically; index-width size class",
 "C09": "; index-width size class (more than 2^16 columns)",
 "C11": "; girth queried inside thread pools on graphs with slow and fast roots; hub nodes of degree 255..600; graphs with more than 2^16 nodes per side",
 "C12": "; noise independence across workers and across Eb/N0 points (sigma-normalised first-frame digests)",
 "C13": "; the `ber` front end run once per process with the scripted decoder (both result files compared column by column with the scripted frame log); all-workers-stall and workers-far-ahead scenarios",
 "C14": "; whole blocks of up to 140000 symbols checked symbol by symbol; sigma from 1e-150 to 1e150; exact bisector points",
 "C15": "; element type with a destructor (ledger of constructed/dropped values), call histories on one thread, patterns of up to 200 blocks, blocks beyond 2^16 elements",
 "C16": "; seed search compared with a sequential re-run inside pools of 1/2/4/16 threads on small, marginal and large (overlapping) configurations; TSan and Miri (Tree Borrows) legs in the thorough tier",
 "C17": "; state-aware set_row/set_col lists, dimensions beyond 64, 128 and 2^16",
 "C18": "; C constructors and both C decode entry points (f32 with infinite LLRs) in a child process; file-constructor call history",
 "C19": "; histories on one handle, infinite LLRs, file replaced between constructor calls (also same length and same modification time)",
 "C20": "; input through a named pipe fed in uneven chunks, pre-existing longer output files, codes with more than 2^16 message bits, option combinations",
}

BUILT = os.environ.get("LV_BUILT", "").split()

def main():
    built = set()
    # a property is claimed iff its module is dispatched by the harness
    src = open("/verif/harness/src/props/mod.rs").read()
    for pid in CHECKS:
        if f'"{pid}" =>' in src:
            built.add(pid)
    props = [json.loads(l) for l in open("/verif/properties.jsonl")]
    checks = []
    na = []
    for p in props:
        pid = p["id"]
        if pid in built:
            tech, text, ref = CHECKS[pid]
            checks.append({
                "property_id": pid,
                "quick_cmd": f"./check {pid} quick",
                "thorough_cmd": f"./check {pid} thorough",
                "evidence_file": f"/verif/evidence/{pid}.json",
                "replay_cmd_template": f"./check {pid} quick --replay {{path}}",
                "engine": "lv",
                "level_claimed": {"category": "exploration", "text": text, "design_ref": "DESIGN.md section " + ref},
                "level_note": LEVEL_NOTE_COMMON,
                "technique": "runtime monitoring: " + tech + EXTRA.get(pid, "") + COMMON_TECH,
            })
        else:
            na.append({"property_id": pid, "reason": "check not built yet (build phase in progress); it will be claimed once its monitor exists"})
    m = {
        "version": 1,
        "setup_cmd": "./check setup",
        "hooks": {
            "guard": "--cfg ldpc_toolbox_verif",
            "enable": "no source hooks are used: every monitor attaches at a public extension point of the library (DecoderArithmetic, DecoderFactory, Modulation, Reporter, extern \"C\" symbols, the CLI binary)",
            "baseline_off_cmd": "cd /repo && cargo test --workspace --no-fail-fast --offline",
            "source_commits": [],
            "add_only": True,
        },
        "engines": [
            {"name": "lv", "path": "/verif/harness", "serves_properties": sorted(built),
             "kind_free_text": "Rust harness crate (path dependency on /repo, rebuilt by every check) containing generators, independent oracles, trace/spec checkers and the evidence writer; driven by /verif/check which also runs the Miri / ThreadSanitizer / ASan / valgrind legs"},
        ],
        "checks": checks,
        "notes": "All checks rebuild from /repo's working tree (cargo path dependency). VERIF_SEED seeds every random choice. Known findings: /verif/KNOWN_FINDINGS.txt. See DESIGN.md.",
        "not_applicable": na,
    }
    json.dump(m, open("/verif/MANIFEST.json", "w"), indent=1)
    print("claimed:", " ".join(sorted(built)), "| not yet:", " ".join(x["property_id"] for x in na))

main()
