//! Numeric glue so that monitors can be generic over the arithmetic's value types.

pub trait Num: Copy + std::fmt::Debug + Default + Send + PartialEq + 'static {
    fn from_f64(x: f64) -> Self;
    fn to_f64(self) -> f64;
    const IS_INT: bool;
    /// unit round-off of the type (0 for integers)
    const U: f64;
    fn bits(self) -> u64;
}
impl Num for f64 {
    fn from_f64(x: f64) -> f64 {
        x
    }
    fn to_f64(self) -> f64 {
        self
    }
    const IS_INT: bool = false;
    const U: f64 = 1.1102230246251565e-16;
    fn bits(self) -> u64 {
        self.to_bits()
    }
}
impl Num for f32 {
    fn from_f64(x: f64) -> f32 {
        x as f32
    }
    fn to_f64(self) -> f64 {
        self as f64
    }
    const IS_INT: bool = false;
    const U: f64 = 5.960464477539063e-8;
    fn bits(self) -> u64 {
        self.to_bits() as u64
    }
}
impl Num for i8 {
    fn from_f64(x: f64) -> i8 {
        x as i8
    }
    fn to_f64(self) -> f64 {
        self as f64
    }
    const IS_INT: bool = true;
    const U: f64 = 0.0;
    fn bits(self) -> u64 {
        self as u8 as u64
    }
}
impl Num for i16 {
    fn from_f64(x: f64) -> i16 {
        x as i16
    }
    fn to_f64(self) -> f64 {
        self as f64
    }
    const IS_INT: bool = true;
    const U: f64 = 0.0;
    fn bits(self) -> u64 {
        self as u16 as u64
    }
}
impl Num for i64 {
    fn from_f64(x: f64) -> i64 {
        x as i64
    }
    fn to_f64(self) -> f64 {
        self as f64
    }
    const IS_INT: bool = true;
    const U: f64 = 0.0;
    fn bits(self) -> u64 {
        self as u64
    }
}
