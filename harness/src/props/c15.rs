//! C15 – interleaving and puncturing are exact, invertible re-orderings.

use crate::ctx::{Local, Run, guard, panic_class};
use crate::json::J;
use crate::rng::Dig;
use ldpc_toolbox::gf2::GF2;
use ldpc_toolbox::simulation::interleaving::Interleaver;
use ldpc_toolbox::simulation::puncturing::Puncturer;
use ndarray::Array1;
use num_traits::{One, Zero};

fn perm_expected(c_cols: usize, r_rows: usize, backward: bool) -> Vec<usize> {
    // output[r*C + c] = input[c*R + r]   (forward)
    // output[r*C + c] = input[(C-1-c)*R + r]   (backward)
    let mut v = vec![0; c_cols * r_rows];
    for r in 0..r_rows {
        for c in 0..c_cols {
            let src = if backward { (c_cols - 1 - c) * r_rows + r } else { c * r_rows + r };
            v[r * c_cols + c] = src;
        }
    }
    v
}

// ---- an element type with a destructor ("any element type"): every live value carries a magic word and a unique id
// registered in a per-thread ledger; a destructor that runs on something that was never constructed (memory handed
// out as initialised without being so) or twice, and values that are never dropped, show up in the ledger.
thread_local! {
    static LEDGER: std::cell::RefCell<(u64, std::collections::HashSet<u64>, u64)> = std::cell::RefCell::new((0, std::collections::HashSet::new(), 0));
}
const MAGIC: u64 = 0x5EED_1DEA_C0DE_F00D;
struct Tracked {
    magic: u64,
    id: u64,
    val: i64,
    _heap: Box<i64>,
}
impl Tracked {
    fn new(val: i64) -> Tracked {
        let id = LEDGER.with(|l| {
            let mut l = l.borrow_mut();
            l.0 += 1;
            let id = l.0;
            l.1.insert(id);
            id
        });
        Tracked { magic: MAGIC, id, val, _heap: Box::new(val) }
    }
}
impl Clone for Tracked {
    fn clone(&self) -> Tracked {
        Tracked::new(self.val)
    }
}
impl Drop for Tracked {
    fn drop(&mut self) {
        let ok = self.magic == MAGIC && LEDGER.with(|l| l.borrow_mut().1.remove(&self.id));
        if !ok {
            LEDGER.with(|l| l.borrow_mut().2 += 1);
            // do not free a pointer that was never allocated
            let fake = std::mem::replace(&mut self._heap, Box::new(0));
            std::mem::forget(fake);
        }
    }
}
impl std::ops::Add for Tracked {
    type Output = Tracked;
    fn add(self, o: Tracked) -> Tracked {
        Tracked::new(self.val + o.val)
    }
}
impl Zero for Tracked {
    fn zero() -> Tracked {
        Tracked::new(0)
    }
    fn is_zero(&self) -> bool {
        self.val == 0
    }
}

fn check_interleaver_tracked(l: &mut Local, c_cols: usize, r_rows: usize, backward: bool) {
    let n = c_cols * r_rows;
    let want = perm_expected(c_cols, r_rows, backward);
    let det = |what: &str| J::obj().set("columns", c_cols).set("rows", r_rows).set("backward", backward).set("element_type", "struct with a destructor").set("what", what);
    LEDGER.with(|l| *l.borrow_mut() = (0, std::collections::HashSet::new(), 0));
    l.eval();
    let r = guard(|| {
        let il = Interleaver::new(c_cols, backward);
        let input: Array1<Tracked> = Array1::from_vec((0..n as i64).map(Tracked::new).collect());
        let out: Array1<Tracked> = il.interleave(&input);
        let got: Vec<usize> = out.iter().map(|t| t.val as usize).collect();
        let back: Vec<Tracked> = il.deinterleave(out.as_slice().unwrap());
        let id: Vec<usize> = back.iter().map(|t| t.val as usize).collect();
        (got, id)
    });
    let (live, bad) = LEDGER.with(|l| {
        let l = l.borrow();
        (l.1.len(), l.2)
    });
    match r {
        Err(p) => l.violation(format!("interleave/deinterleave panicked for an element type with a destructor: {}", panic_class(&p)), det(&p)),
        Ok((got, id)) => {
            if got != want {
                l.violation("interleave is not the column-write/row-read permutation (element type with a destructor)", det("permutation"));
            } else if id != (0..n).collect::<Vec<_>>() {
                l.violation("deinterleave is not the inverse of interleave (element type with a destructor)", det("inverse"));
            }
        }
    }
    if bad > 0 {
        l.violation(
            "a destructor ran on an element that was never constructed (or ran twice) inside interleave/deinterleave",
            det("destructor ledger").set("bad_destructor_calls", bad),
        );
    } else if live > 0 {
        l.violation("interleave/deinterleave leaks elements (constructed values never dropped)", det("destructor ledger").set("live_after_all_drops", live));
    } else {
        l.count("tracked_element_runs");
    }
}

fn check_interleaver(l: &mut Local, c_cols: usize, r_rows: usize, backward: bool) {
    let n = c_cols * r_rows;
    let il = Interleaver::new(c_cols, backward);
    let want = perm_expected(c_cols, r_rows, backward);
    let det = |what: &str| J::obj().set("columns", c_cols).set("rows", r_rows).set("backward", backward).set("what", what);
    let dirname = if backward { "backward" } else { "forward" };
    // unique tags make the permutation readable from the output
    // i64
    l.eval();
    let tags: Vec<i64> = (0..n as i64).collect();
    // call history: an interleaver with the same shape but the opposite read direction (and one with another
    // column count) is used on this thread, on a block of the same length, right before the one under test
    let _ = guard(|| Interleaver::new(c_cols, !backward).interleave(&Array1::from_vec(tags.clone())));
    let _ = guard(|| Interleaver::new(c_cols, !backward).deinterleave(&tags));
    if r_rows > 1 && n % r_rows == 0 {
        let _ = guard(|| Interleaver::new(r_rows, backward).interleave(&Array1::from_vec(tags.clone())));
    }
    match guard(|| il.interleave(&Array1::from_vec(tags.clone()))) {
        Err(p) => {
            l.violation(format!("interleave panicked on a divisible length ({}): {}", dirname, panic_class(&p)), det(&p));
            return;
        }
        Ok(out) => {
            let got: Vec<usize> = out.iter().map(|&x| x as usize).collect();
            if got != want {
                l.violation(
                    format!("interleave is not the column-write/row-read permutation ({})", dirname),
                    det("permutation").set("got", got).set("expected", want.clone()),
                );
                return;
            }
            // deinterleave o interleave = id
            match guard(|| il.deinterleave(out.as_slice().unwrap())) {
                Err(p) => {
                    l.violation(format!("deinterleave panicked ({}): {}", dirname, panic_class(&p)), det(&p));
                    return;
                }
                Ok(back) => {
                    if back != tags {
                        l.violation(format!("deinterleave(interleave(x)) != x ({})", dirname), det("round trip").set("got", back.iter().map(|&x| x as u64).collect::<Vec<_>>()));
                        return;
                    }
                }
            }
        }
    }
    // interleave o deinterleave = id and deinterleave = inverse permutation, f64; every third element is a
    // signed zero (an exact re-ordering preserves the bit pattern of every element, including -0.0)
    l.eval();
    let tf: Vec<f64> = (0..n).map(|i| if i % 3 == 1 { -0.0 } else if i % 3 == 2 && i % 2 == 0 { 0.0 } else { i as f64 + 0.25 }).collect();
    // forward direction bit-exact on floats
    if let Ok(o) = guard(|| il.interleave(&Array1::from_vec(tf.clone()))) {
        let exp: Vec<u64> = want.iter().map(|&s| tf[s].to_bits()).collect();
        let got: Vec<u64> = o.iter().map(|x| x.to_bits()).collect();
        if got != exp {
            l.violation(format!("interleave is not an exact re-ordering of f64 elements (bit patterns differ, {})", dirname), det("f64 bits").set("input", crate::json::jfs(&tf)).set("output", crate::json::jfs(&o.to_vec())));
            return;
        }
    }
    match guard(|| il.deinterleave(&tf)) {
        Err(p) => {
            l.violation(format!("deinterleave panicked ({}): {}", dirname, panic_class(&p)), det(&p));
            return;
        }
        Ok(d) => {
            // deinterleave output[src] = input[dst] where want[dst] = src
            let mut exp = vec![0.0; n];
            for (dst, &src) in want.iter().enumerate() {
                exp[src] = tf[dst];
            }
            if d.iter().map(|x| x.to_bits()).collect::<Vec<_>>() != exp.iter().map(|x| x.to_bits()).collect::<Vec<_>>() {
                l.violation(format!("deinterleave is not the inverse permutation ({})", dirname), det("inverse"));
                return;
            }
            match guard(|| il.interleave(&Array1::from_vec(d.clone()))) {
                Ok(o) if o.iter().map(|x| x.to_bits()).collect::<Vec<_>>() == tf.iter().map(|x| x.to_bits()).collect::<Vec<_>>() => {}
                Ok(_) => {
                    l.violation(format!("interleave(deinterleave(x)) != x ({})", dirname), det("round trip 2"));
                    return;
                }
                Err(p) => {
                    l.violation(format!("interleave panicked ({}): {}", dirname, panic_class(&p)), det(&p));
                    return;
                }
            }
        }
    }
    // u8 and GF2 element types (tags modulo, permutation compared through the expected map)
    l.eval();
    let tu: Vec<u8> = (0..n).map(|i| (i * 7 + 3) as u8).collect();
    if let Ok(o) = guard(|| il.interleave(&Array1::from_vec(tu.clone()))) {
        let exp: Vec<u8> = want.iter().map(|&s| tu[s]).collect();
        if o.to_vec() != exp {
            l.violation(format!("interleave wrong for u8 elements ({})", dirname), det("u8"));
        }
        if let Ok(b) = guard(|| il.deinterleave(&exp)) {
            if b != tu {
                l.violation(format!("deinterleave wrong for u8 elements ({})", dirname), det("u8"));
            }
        }
    }
    let tg: Vec<GF2> = (0..n).map(|i| if (i * i + i / 3) % 2 == 1 { GF2::one() } else { GF2::zero() }).collect();
    if let Ok(o) = guard(|| il.interleave(&Array1::from_vec(tg.clone()))) {
        let exp: Vec<GF2> = want.iter().map(|&s| tg[s]).collect();
        if o.to_vec() != exp {
            l.violation(format!("interleave wrong for GF2 elements ({})", dirname), det("GF2"));
        }
        if let Ok(b) = guard(|| il.deinterleave(&exp)) {
            if b != tg {
                l.violation(format!("deinterleave wrong for GF2 elements ({})", dirname), det("GF2"));
            }
        }
    }
    if c_cols > 1 && r_rows > 1 {
        let mut d = Dig::new();
        d.u(c_cols as u64).u(r_rows as u64).u(backward as u64);
        l.nt(d.get());
    }
}

fn check_puncturer(l: &mut Local, pattern: &[bool], block: usize) {
    let p = match guard(|| Puncturer::new(pattern)) {
        Ok(p) => p,
        Err(pm) => {
            l.violation(
                format!("Puncturer::new panicked on a pattern with at least one kept block: {}", panic_class(&pm)),
                J::obj().set("pattern_length", pattern.len()).set("kept_blocks_at", (0..pattern.len()).filter(|&i| pattern[i]).map(|i| i as u64).collect::<Vec<_>>()),
            );
            return;
        }
    };
    let plen = pattern.len();
    let kept: Vec<usize> = (0..plen).filter(|&i| pattern[i]).collect();
    let n = plen * block;
    let det = |what: &str| {
        J::obj()
            .set("pattern", pattern.iter().map(|&b| b as u64).collect::<Vec<_>>())
            .set("block_size", block)
            .set("what", what)
    };
    l.eval();
    // rate
    let rate = p.rate();
    let want_rate = plen as f64 / kept.len() as f64;
    if rate != want_rate {
        l.violation("rate() is not pattern length / kept blocks", det("rate").set("got", rate).set("expected", want_rate));
    }
    // puncture with unique tags
    let tags: Vec<i64> = (0..n as i64).map(|x| x + 1000).collect();
    let want: Vec<i64> = kept.iter().flat_map(|&k| tags[k * block..(k + 1) * block].to_vec()).collect();
    match guard(|| p.puncture(&Array1::from_vec(tags.clone()))) {
        Err(pm) => {
            l.violation(format!("puncture panicked on a divisible length: {}", panic_class(&pm)), det(&pm));
            return;
        }
        Ok(Err(e)) => {
            l.violation("puncture returned an error for a divisible length", det(&format!("{:?}", e)));
            return;
        }
        Ok(Ok(out)) => {
            if out.to_vec() != want {
                l.violation(
                    "puncture does not keep exactly the blocks marked true, in order",
                    det("blocks").set("got", out.iter().map(|&x| x as u64).collect::<Vec<_>>()).set("expected", want.iter().map(|&x| x as u64).collect::<Vec<_>>()),
                );
                return;
            }
        }
    }
    // the same codeword handed over as non-standard-layout views (reversed, every second element)
    {
        use ndarray::s;
        let rev: Vec<i64> = tags.iter().rev().cloned().collect();
        let rev_arr = Array1::from_vec(rev);
        let mut wide = Vec::with_capacity(2 * n);
        for &t in &tags {
            wide.push(t);
            wide.push(-1);
        }
        let wide_arr = Array1::from_vec(wide);
        for (lname, res) in [
            ("reversed view", guard(|| p.puncture(&rev_arr.slice(s![..;-1])))),
            ("stride-2 view", guard(|| p.puncture(&wide_arr.slice(s![..;2])))),
        ] {
            l.eval();
            match res {
                Ok(Ok(out)) => {
                    if out.to_vec() != want {
                        l.violation(
                            format!("puncture of a {} does not keep exactly the blocks marked true, in order", lname),
                            det(lname).set("got", out.iter().map(|&x| x as u64).collect::<Vec<_>>()).set("expected", want.iter().map(|&x| x as u64).collect::<Vec<_>>()),
                        );
                        return;
                    }
                }
                Ok(Err(e)) => {
                    l.violation(format!("puncture of a {} returned an error for a divisible length", lname), det(&format!("{:?}", e)));
                    return;
                }
                Err(pm) => {
                    l.violation(format!("puncture of a {} panicked: {}", lname, panic_class(&pm)), det(&pm));
                    return;
                }
            }
        }
    }
    // GF2 elements through puncture
    let tg: Vec<GF2> = (0..n).map(|i| if (i * 5 + i / 2) % 3 == 1 { GF2::one() } else { GF2::zero() }).collect();
    if let Ok(Ok(out)) = guard(|| p.puncture(&Array1::from_vec(tg.clone()))) {
        let w: Vec<GF2> = kept.iter().flat_map(|&k| tg[k * block..(k + 1) * block].to_vec()).collect();
        if out.to_vec() != w {
            l.violation("puncture wrong for GF2 elements", det("GF2"));
        }
    }
    // depuncture: blocks put back, default elsewhere (f64 -> exactly +0.0)
    let llrs: Vec<f64> = (0..kept.len() * block).map(|i| -(i as f64) - 1.5).collect();
    match guard(|| p.depuncture(&llrs)) {
        Err(pm) => {
            l.violation(format!("depuncture panicked on a divisible length: {}", panic_class(&pm)), det(&pm));
            return;
        }
        Ok(Err(e)) => {
            l.violation("depuncture returned an error for a divisible length", det(&format!("{:?}", e)));
            return;
        }
        Ok(Ok(out)) => {
            let mut exp = vec![0.0f64; n];
            for (j, &k) in kept.iter().enumerate() {
                exp[k * block..(k + 1) * block].copy_from_slice(&llrs[j * block..(j + 1) * block]);
            }
            let same = out.len() == exp.len() && out.iter().zip(&exp).all(|(a, b)| a.to_bits() == b.to_bits());
            if !same {
                l.violation(
                    "depuncture does not put the blocks back with neutral zeros elsewhere",
                    det("depuncture").set("got", crate::json::jfs(&out)).set("expected", crate::json::jfs(&exp)),
                );
                return;
            }
        }
    }
    // i64 depuncture
    let li: Vec<i64> = (0..kept.len() * block).map(|i| i as i64 + 7).collect();
    if let Ok(Ok(out)) = guard(|| p.depuncture(&li)) {
        let mut exp = vec![0i64; n];
        for (j, &k) in kept.iter().enumerate() {
            exp[k * block..(k + 1) * block].copy_from_slice(&li[j * block..(j + 1) * block]);
        }
        if out != exp {
            l.violation("depuncture wrong for i64 elements", det("i64"));
        }
    }
    if kept.len() < plen && kept.len() > 0 {
        let mut d = Dig::new();
        for &b in pattern {
            d.u(b as u64);
        }
        d.u(block as u64);
        l.nt(d.get());
    }
}

/// length 0 is divisible by every pattern length: empty in, empty out, no panic
fn check_empty(l: &mut Local, pattern: &[bool]) {
    let p = match guard(|| Puncturer::new(pattern)) {
        Ok(p) => p,
        Err(pm) => {
            l.violation(
                format!("Puncturer::new panicked on a pattern with at least one kept block: {}", panic_class(&pm)),
                J::obj().set("pattern_length", pattern.len()).set("kept_blocks_at", (0..pattern.len()).filter(|&i| pattern[i]).map(|i| i as u64).collect::<Vec<_>>()),
            );
            return;
        }
    };
    let det = |what: &str| J::obj().set("pattern", pattern.iter().map(|&b| b as u64).collect::<Vec<_>>()).set("length", 0).set("what", what);
    l.eval();
    match guard(|| p.puncture(&Array1::<u8>::from_vec(vec![]))) {
        Ok(Ok(o)) if o.is_empty() => {}
        Ok(Ok(o)) => l.violation("puncture of an empty codeword returns a non-empty result", det("puncture").set("output_len", o.len())),
        Ok(Err(e)) => l.violation("puncture of an empty codeword (length 0 is divisible by any pattern length) returns an error", det(&format!("{:?}", e))),
        Err(pm) => l.violation(format!("puncture panicked on an empty codeword: {}", panic_class(&pm)), det(&pm)),
    }
    l.eval();
    let empty: Vec<f64> = vec![];
    match guard(|| p.depuncture(&empty)) {
        Ok(Ok(o)) if o.is_empty() => {}
        Ok(Ok(o)) => l.violation("depuncture of an empty frame returns a non-empty result", det("depuncture").set("output_len", o.len())),
        Ok(Err(e)) => l.violation("depuncture of an empty frame returns an error", det(&format!("{:?}", e))),
        Err(pm) => l.violation(format!("depuncture panicked on an empty frame: {}", panic_class(&pm)), det(&pm)),
    }
}

fn check_indivisible(l: &mut Local, pattern: &[bool], len: usize) {
    let p = match guard(|| Puncturer::new(pattern)) {
        Ok(p) => p,
        Err(pm) => {
            l.violation(
                format!("Puncturer::new panicked on a pattern with at least one kept block: {}", panic_class(&pm)),
                J::obj().set("pattern_length", pattern.len()).set("kept_blocks_at", (0..pattern.len()).filter(|&i| pattern[i]).map(|i| i as u64).collect::<Vec<_>>()),
            );
            return;
        }
    };
    let plen = pattern.len();
    let ntrue = pattern.iter().filter(|&&b| b).count();
    let det = |what: &str| {
        J::obj()
            .set("pattern", pattern.iter().map(|&b| b as u64).collect::<Vec<_>>())
            .set("length", len)
            .set("what", what)
    };
    if len % plen != 0 {
        l.eval();
        let v: Vec<u8> = (0..len).map(|i| i as u8).collect();
        match guard(|| p.puncture(&Array1::from_vec(v.clone()))) {
            Err(pm) => l.violation(format!("puncture panicked on an indivisible length: {}", panic_class(&pm)), det(&pm)),
            Ok(Ok(o)) => l.violation("puncture returned Ok for an indivisible length", det("ok").set("output_len", o.len())),
            Ok(Err(_)) => {
                l.count("indivisible_puncture_err");
            }
        }
    }
    if ntrue > 0 && len % ntrue != 0 {
        l.eval();
        let v: Vec<f64> = (0..len).map(|i| i as f64).collect();
        match guard(|| p.depuncture(&v)) {
            Err(pm) => l.violation(format!("depuncture panicked on an indivisible length: {}", panic_class(&pm)), det(&pm)),
            Ok(Ok(o)) => l.violation("depuncture returned Ok for an indivisible length", det("ok").set("output_len", o.len())),
            Ok(Err(_)) => {
                l.count("indivisible_depuncture_err");
            }
        }
    }
}

pub fn run(run: &mut Run) {
    let miri = cfg!(miri);
    run.rule = "interleaver: EXHAUSTIVE over columns C in 1..12, rows R in 1..12, both directions, element types i64/f64/u8/GF2 and a struct with a destructor (ledger of constructed/dropped values: no destructor on unconstructed memory, no leak) with unique tags so the permutation is read off the output (f64 vectors contain +0.0 and -0.0 and are compared bit for bit; every shape is exercised right after an interleaver of the same shape and opposite direction was used on the same thread) (plus random larger shapes up to 360x180 and blocks of more than 2^16 elements, and patterns of 60..200 blocks); puncturer: EXHAUSTIVE over all 510 patterns of length <= 8 with >= 1 true x block sizes 1..6, all lengths <= 50 that the pattern length / kept count does not divide, and the empty input; non-trivial = shape with C>1 and R>1 / pattern that removes at least one block; distinct by (C,R,dir) or (pattern, block)".into();
    run.exhaustive = Some(true);
    run.assumptions = vec![
        "the interleaver's documented panic on lengths not divisible by the column count is outside the statement".into(),
        "patterns without any true block are outside the domain".into(),
    ];
    let maxc = if miri { 3 } else { 12 };
    run.sub("interleaver-exhaustive", (maxc * maxc * 2) as u64, |l, idx, _rng| {
        let i = idx as usize;
        let backward = i % 2 == 1;
        let c = (i / 2) % maxc + 1;
        let r = (i / 2) / maxc + 1;
        check_interleaver(l, c, r, backward);
        check_interleaver_tracked(l, c, r, backward);
        if idx % 97 == 0 {
            l.sample(|| J::obj().set("columns", c).set("rows", r).set("backward", backward).set("expected_permutation", perm_expected(c, r, backward)));
        }
    });
    // patterns: all lengths 1..=8, all masks with >= 1 true
    let mut patterns: Vec<Vec<bool>> = Vec::new();
    let maxlen = if miri { 3 } else { 8 };
    for len in 1..=maxlen {
        for mask in 1u32..(1 << len) {
            patterns.push((0..len).map(|i| (mask >> i) & 1 == 1).collect());
        }
    }
    let maxblock = if miri { 2 } else { 6 };
    let np = patterns.len();
    run.extra("puncturer_patterns", np);
    run.sub("puncturer-exhaustive", (np * maxblock) as u64, |l, idx, _rng| {
        let pat = &patterns[idx as usize % np];
        let block = idx as usize / np + 1;
        check_puncturer(l, pat, block);
        if idx % 501 == 0 {
            l.sample(|| J::obj().set("pattern", pat.iter().map(|&b| b as u64).collect::<Vec<_>>()).set("block", block));
        }
    });
    let maxlen_ind = if miri { 8 } else { 50 };
    run.sub("puncturer-indivisible", np as u64, |l, idx, _rng| {
        let pat = &patterns[idx as usize];
        check_empty(l, pat);
        for len in 1..=maxlen_ind {
            check_indivisible(l, pat, len);
        }
    });
    if !miri {
        let n = run.tier.n(1500, 40_000);
        run.sub("interleaver-random-large", n, |l, _idx, rng| {
            let c = *rng.pick(&[2usize, 3, 4, 5, 8, 16, 45, 90, 180, 360]);
            // one block in twenty is longer than 2^16 elements (index widths)
            let r = if rng.chance(0.05) { 65_537 / c + 1 + rng.below(200) } else { rng.range(13, 180) };
            check_interleaver(l, c, r, rng.coin());
        });
        run.sub("puncturer-random-large", n, |l, _idx, rng| {
            // a quarter of the patterns is longer than a machine word (kept blocks beyond index 64 and 128)
            let long = rng.chance(0.25);
            let len = if long { rng.range(60, 200) } else { rng.range(9, 24) };
            let mut pat: Vec<bool> = (0..len).map(|_| rng.chance(0.7)).collect();
            pat[rng.below(len)] = true;
            if long {
                pat[len - 1] = true;
            }
            check_puncturer(l, &pat, if long { rng.range(1, 12) } else { rng.range(7, 360) });
        });
    }
}
