//! C09 – systematic conversion succeeds iff full rank and only permutes columns.

use crate::ctx::{Local, Run, guard, panic_class};
use crate::genm::{Mat, from_sparse};
use crate::oracle::{rank, tail_invertible};
use crate::rng::{Dig, Rng};
use ldpc_toolbox::encoder::Encoder;
use ldpc_toolbox::systematic::{Error, parity_to_systematic};

fn gen_h(rng: &mut Rng, idx: u64) -> Mat {
    let big = idx % 64 == 63;
    let r = if big { rng.range(20, 60) } else { rng.range(1, 10) };
    let n = if rng.chance(0.12) { r } else if big { r + rng.range(0, 60) } else { r + rng.range(0, 14) };
    let mut e: Vec<(usize, usize)> = Vec::new();
    let fam: &'static str;
    match rng.below(10) {
        0 => {
            fam = "random-half";
            for j in 0..r {
                for c in 0..n {
                    if rng.coin() {
                        e.push((j, c));
                    }
                }
            }
        }
        1 => {
            fam = "sparse";
            for c in 0..n {
                for j in { let kk = rng.range(0, 2.min(r)); rng.choose(r, kk) } {
                    e.push((j, c));
                }
            }
        }
        2 => {
            fam = "dependent-row";
            for j in 0..r {
                for c in 0..n {
                    if rng.chance(0.4) {
                        e.push((j, c));
                    }
                }
            }
            if r >= 2 {
                // row t becomes the xor of up to two other rows
                let t = rng.below(r);
                let others: Vec<usize> = (0..r).filter(|&j| j != t).collect();
                let a = *rng.pick(&others);
                let b = *rng.pick(&others);
                let src: Vec<usize> = (0..n)
                    .filter(|&c| e.contains(&(a, c)) ^ (a != b && e.contains(&(b, c))))
                    .collect();
                e.retain(|&(j, _)| j != t);
                for c in src {
                    e.push((t, c));
                }
            } else {
                e.clear();
            }
        }
        3 => {
            fam = "zero-row";
            for j in 0..r {
                for c in 0..n {
                    if rng.chance(0.5) {
                        e.push((j, c));
                    }
                }
            }
            let z = rng.below(r);
            e.retain(|&(j, _)| j != z);
        }
        4 => {
            fam = "pivots-far-right";
            // free (zero or dependent) columns first, identity-like pivots at the far right
            let k = n - r;
            for c in 0..k {
                if rng.chance(0.3) {
                    // zero column
                } else {
                    // column that only involves rows < some early bound so that pivots sit right
                    let top = rng.below(r) ;
                    for j in 0..=top {
                        if rng.coin() {
                            e.push((j, c));
                        }
                    }
                }
            }
            for j in 0..r {
                e.push((j, k + j));
                for jj in 0..j {
                    if rng.chance(0.3) {
                        e.push((jj, k + j));
                    }
                }
            }
        }
        5 => {
            fam = "pivots-exhaust-free-columns-early";
            // pivots in columns 0, then a gap of all free columns, then the rest: e.g. (0,0),(0,1),(1,2),(2,3)
            let k = n - r;
            // row 0 has ones in columns 0..=k, rows j>=1 have pivot at k+j
            for c in 0..=k.min(n - 1) {
                e.push((0, c));
            }
            for j in 1..r {
                e.push((j, k + j));
                if rng.coin() && k + j + 1 < n {
                    e.push((j, k + j + 1));
                }
            }
        }
        6 => {
            fam = "identity-left";
            for j in 0..r {
                e.push((j, j));
            }
            for j in 0..r {
                for c in r..n {
                    if rng.chance(0.4) {
                        e.push((j, c));
                    }
                }
            }
        }
        7 => {
            fam = "identity-right";
            let k = n - r;
            for j in 0..r {
                e.push((j, k + j));
            }
            for j in 0..r {
                for c in 0..k {
                    if rng.chance(0.4) {
                        e.push((j, c));
                    }
                }
            }
        }
        8 => {
            fam = "duplicate-and-zero-columns";
            let base: Vec<Vec<usize>> = (0..3).map(|_| (0..r).filter(|_| rng.coin()).collect()).collect();
            for c in 0..n {
                match rng.below(5) {
                    0 => {}
                    1..=3 => {
                        let b = &base[rng.below(3)];
                        for &j in b {
                            e.push((j, c));
                        }
                    }
                    _ => {
                        for j in 0..r {
                            if rng.coin() {
                                e.push((j, c));
                            }
                        }
                    }
                }
            }
        }
        _ => {
            fam = "staircase-code";
            let k = n - r;
            for c in 0..k {
                for j in { let kk = rng.range(1, 3.min(r)); rng.choose(r, kk) } {
                    e.push((j, c));
                }
            }
            for j in 0..r {
                e.push((j, k + j));
                if j > 0 {
                    e.push((j, k + j - 1));
                }
            }
        }
    }
    Mat::new(r, n, e, fam)
}

fn columns(rows: usize, cols: usize, e: &[(usize, usize)]) -> Vec<Vec<usize>> {
    let mut v = vec![Vec::new(); cols];
    for &(r, c) in e {
        v[c].push(r);
    }
    let _ = rows;
    for c in v.iter_mut() {
        c.sort_unstable();
    }
    v
}

pub fn check_h(l: &mut Local, m: &Mat, rng: &mut Rng) {
    let (r, n) = (m.rows, m.cols);
    let h = if rng.coin() { m.to_sparse() } else { m.to_sparse_shuffled(rng) };
    let rk = rank(r, n, &m.e);
    let full = rk == r;
    l.eval();
    l.count(m.family);
    l.count(if full { "full_rank" } else { "rank_deficient" });
    let res = match guard(|| parity_to_systematic(&h)) {
        Err(p) => {
            l.violation(
                format!("parity_to_systematic panicked ({}, {}): {}", m.family, if full { "full rank" } else { "rank deficient" }, panic_class(&p)),
                m.json().set("panic", p).set("rank", rk),
            );
            return;
        }
        Ok(x) => x,
    };
    match res {
        Err(Error::NotFullRank) => {
            if full {
                l.violation(format!("NotFullRank returned for a full-rank matrix ({})", m.family), m.json().set("rank", rk));
            }
        }
        Err(other) => {
            l.violation(format!("unexpected error {:?} for r <= n", other), m.json());
        }
        Ok(hs) => {
            if !full {
                l.violation(format!("Ok returned for a rank-deficient matrix ({})", m.family), m.json().set("rank", rk));
                return;
            }
            let es = from_sparse(&hs);
            let det = |what: &str| m.json().set("what", what).set("result_entries", crate::json::jentries(&es));
            if hs.num_rows() != r || hs.num_cols() != n {
                l.violation("result has different dimensions", det("dimensions"));
                return;
            }
            let mut a = columns(r, n, &m.e);
            let mut b = columns(r, n, &es);
            a.sort();
            b.sort();
            if a != b {
                l.violation(format!("result columns are not a permutation of the input columns ({})", m.family), det("multiset of columns differs"));
                return;
            }
            if !tail_invertible(r, n, &es) {
                l.violation(format!("last r columns of the result are singular ({})", m.family), det("tail singular"));
                return;
            }
            match guard(|| Encoder::from_h(&hs)) {
                Ok(Ok(_)) => {}
                Ok(Err(e)) => l.violation("Encoder::from_h rejects the converted matrix", det(&format!("{:?}", e))),
                Err(p) => l.violation(format!("Encoder::from_h panicked on the converted matrix: {}", panic_class(&p)), det(&p)),
            }
            // non-trivial: full rank and at least one free column left of a pivot (i.e. input tail not already the pivot set)
            let mut bm = crate::oracle::BitMat::from_entries(r, n, &m.e);
            let piv = bm.rref(n);
            let free_left = (0..n).any(|c| !piv.contains(&c) && piv.iter().any(|&p| p > c));
            if free_left {
                let mut d = Dig::new();
                d.u(r as u64).u(n as u64).entries(&m.e);
                l.nt(d.get());
            }
            let last_pivot_gap = piv.windows(2).any(|w| w[1] > w[0] + 1);
            if last_pivot_gap {
                l.count("pivot_gaps");
            }
        }
    }
    l.sample(|| m.json().set("rank", rk));
}

/// the same judgement as `check_h` with small violation details (wide matrices)
fn check_h_compact(l: &mut Local, m: &Mat) {
    let (r, n) = (m.rows, m.cols);
    let h = m.to_sparse();
    let full = rank(r, n, &m.e) == r;
    l.eval();
    let det = |what: &str| crate::json::J::obj().set("rows", r).set("cols", n).set("full_rank", full).set("what", what).set("entries_head", crate::json::jentries(&m.e[..m.e.len().min(30)]));
    match guard(|| parity_to_systematic(&h)) {
        Err(p) => l.violation(format!("parity_to_systematic panicked (wide): {}", panic_class(&p)), det(&p)),
        Ok(Err(Error::NotFullRank)) => {
            if full {
                l.violation("NotFullRank returned for a full-rank matrix (wide)", det("NotFullRank"));
            }
        }
        Ok(Err(other)) => l.violation(format!("unexpected error {:?} for r <= n", other), det("error")),
        Ok(Ok(hs)) => {
            if !full {
                l.violation("Ok returned for a rank-deficient matrix (wide)", det("Ok"));
                return;
            }
            let es = from_sparse(&hs);
            if hs.num_rows() != r || hs.num_cols() != n {
                l.violation("result has different dimensions", det("dimensions"));
                return;
            }
            let mut a = columns(r, n, &m.e);
            let mut b = columns(r, n, &es);
            a.sort();
            b.sort();
            if a != b {
                l.violation("result columns are not a permutation of the input columns (wide)", det("multiset of columns differs"));
                return;
            }
            if !tail_invertible(r, n, &es) {
                l.violation("last r columns of the result are singular (wide)", det("tail singular"));
                return;
            }
            let mut d = Dig::new();
            d.u(r as u64).u(n as u64).entries(&m.e);
            l.nt(d.get());
        }
    }
}

pub fn run(run: &mut Run) {
    run.rule = "r x n binary matrices, 1<=r<=n (mostly <= 10x24, every 64th up to 60x120; and 2..5 x (65 535 .. 136 000): index widths) from 10 families (random, sparse, dependent row, zero row, pivots at the far right, free columns exhausted before the last pivots, identity left/right, duplicate+zero columns, staircase code, square); oracle = own bit-packed rank, column multiset comparison, tail invertibility; non-trivial = full-rank input with a free column left of a pivot; distinct by matrix digest".into();
    let n = if cfg!(miri) { 40 } else { run.tier.n(1_500_000, 50_000_000) };
    run.sub("matrices", n, |l, idx, rng| {
        let m = gen_h(rng, idx);
        check_h(l, &m, rng);
    });
    // index widths: more than 2^16 / 2^17 columns
    if !cfg!(miri) {
        run.sub("wide-matrices", run.tier.n(4, 40), |l, idx, rng| {
            let r = rng.range(2, 5);
            let n = match idx % 3 {
                0 => 65_537 + rng.range(0, 5000),
                1 => 131_073 + rng.range(0, 300),
                _ => 65_536 - rng.range(0, 2),
            };
            let mut e: Vec<(usize, usize)> = Vec::new();
            for j in 0..r {
                for c in rng.choose(n, 40) {
                    e.push((j, c));
                }
            }
            // pivots sometimes only far right, sometimes far left
            if rng.coin() {
                for j in 0..r {
                    let c = n - 1 - 2 * j;
                    if !e.contains(&(j, c)) {
                        e.push((j, c));
                    }
                }
            }
            let m = Mat::new(r, n, e, "wide");
            check_h_compact(l, &m);
        });
    }
    run.sub_seq("directed", 1, |l, _i, rng| {
        for (r, n, e, f) in [
            (3usize, 4usize, vec![(0usize, 0usize), (0, 1), (1, 2), (2, 3)], "witness-3x4"),
            (1, 1, vec![(0, 0)], "1x1-one"),
            (1, 1, vec![], "1x1-zero"),
            (2, 2, vec![(0, 0), (1, 1)], "2x2-identity"),
            (2, 2, vec![(0, 0), (0, 1), (1, 0), (1, 1)], "2x2-singular"),
            (2, 4, vec![(0, 3), (1, 2)], "pivots-last"),
            (2, 4, vec![(0, 0), (1, 0)], "rank1"),
            (1, 5, vec![(0, 2)], "single-one-middle"),
        ] {
            check_h(l, &Mat::new(r, n, e, f), rng);
        }
        // every square matrix up to 3x3 (exhaustive)
        for r in 1..=3usize {
            for bits in 0..(1u32 << (r * r)) {
                let mut e = Vec::new();
                for i in 0..r * r {
                    if (bits >> i) & 1 == 1 {
                        e.push((i / r, i % r));
                    }
                }
                check_h(l, &Mat::new(r, r, e, "square-exhaustive"), rng);
            }
        }
        // every 2x3 and 2x4 matrix (exhaustive)
        for n in 3..=4usize {
            for bits in 0..(1u32 << (2 * n)) {
                let mut e = Vec::new();
                for i in 0..2 * n {
                    if (bits >> i) & 1 == 1 {
                        e.push((i / n, i % n));
                    }
                }
                check_h(l, &Mat::new(2, n, e, "2xn-exhaustive"), rng);
            }
        }
    });
}
