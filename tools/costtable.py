#!/usr/bin/env python3
"""tools/costtable.py <quick-evidence-dir> <thorough-evidence-dir>: prints the markdown cost table of DESIGN section 8."""
import json, sys
q, t = sys.argv[1], sys.argv[2]
legs = {"C13": "Miri many-seeds, TSan, 4/16 front-end processes", "C15": "Miri", "C19": "C-API child, Miri, ASan/UBSan, valgrind", "C16": "Miri + TSan (thorough)",
        "C18": "C-constructor child", "C20": "child processes of the binary", "C06": "real binary", "C07": "real binary"}
print("| property | quick: wall / evaluations / distinct non-trivial | thorough: wall / evaluations / distinct non-trivial | longest single case (CPU s, thorough) | legs besides native + unchecked |")
print("|---|---|---|---|---|")
for i in range(1, 21):
    p = "C%02d" % i
    a = json.load(open(f"{q}/{p}.json")); b = json.load(open(f"{t}/{p}.json"))
    f = lambda e: "%.0f s / %.2g / %.2g" % (e["wall_s"], e["coverage"]["evaluations"], e["coverage"]["distinct_nontrivial"])
    extra = legs.get(p, "Miri (thorough)" if p in ("C02", "C08", "C09", "C11", "C12", "C17") else "")
    print(f"| {p} | {f(a)} | {f(b)} | {b['coverage'].get('longest_case_cpu_s', 0)} | {extra} |")
