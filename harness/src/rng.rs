//! Deterministic PRNG (SplitMix64-seeded xoshiro256**), keyed per case.

#[derive(Clone, Debug)]
pub struct Rng {
    s: [u64; 4],
}

fn splitmix(x: &mut u64) -> u64 {
    *x = x.wrapping_add(0x9E3779B97F4A7C15);
    let mut z = *x;
    z = (z ^ (z >> 30)).wrapping_mul(0xBF58476D1CE4E5B9);
    z = (z ^ (z >> 27)).wrapping_mul(0x94D049BB133111EB);
    z ^ (z >> 31)
}

pub fn fnv(data: &[u8]) -> u64 {
    let mut h = 0xcbf29ce484222325u64;
    for &b in data {
        h ^= b as u64;
        h = h.wrapping_mul(0x100000001b3);
    }
    h
}

/// 64-bit digest helper for "distinct" counting
#[derive(Clone)]
pub struct Dig(pub u64);
impl Dig {
    pub fn new() -> Dig {
        Dig(0x243F6A8885A308D3)
    }
    pub fn u(&mut self, x: u64) -> &mut Self {
        let mut s = self.0 ^ x.wrapping_mul(0x9E3779B97F4A7C15);
        self.0 = splitmix(&mut s);
        self
    }
    pub fn f(&mut self, x: f64) -> &mut Self {
        self.u(x.to_bits())
    }
    pub fn s(&mut self, x: &str) -> &mut Self {
        self.u(fnv(x.as_bytes()))
    }
    pub fn fs(&mut self, x: &[f64]) -> &mut Self {
        for &v in x {
            self.f(v);
        }
        self.u(x.len() as u64)
    }
    pub fn us(&mut self, x: &[usize]) -> &mut Self {
        for &v in x {
            self.u(v as u64);
        }
        self.u(x.len() as u64)
    }
    pub fn entries(&mut self, e: &[(usize, usize)]) -> &mut Self {
        for &(r, c) in e {
            self.u(((r as u64) << 32) | c as u64);
        }
        self.u(e.len() as u64)
    }
    pub fn get(&self) -> u64 {
        self.0
    }
}

impl Rng {
    pub fn new(seed: u64) -> Rng {
        let mut x = seed;
        let s = [splitmix(&mut x), splitmix(&mut x), splitmix(&mut x), splitmix(&mut x)];
        Rng { s }
    }
    /// stream keyed by (seed, property, sub-check, index)
    pub fn keyed(seed: u64, prop: &str, sub: &str, idx: u64) -> Rng {
        let mut d = Dig::new();
        d.u(seed).s(prop).s(sub).u(idx);
        Rng::new(d.get())
    }
    pub fn next_u64(&mut self) -> u64 {
        let r = self.s[1].wrapping_mul(5).rotate_left(7).wrapping_mul(9);
        let t = self.s[1] << 17;
        self.s[2] ^= self.s[0];
        self.s[3] ^= self.s[1];
        self.s[1] ^= self.s[2];
        self.s[0] ^= self.s[3];
        self.s[2] ^= t;
        self.s[3] = self.s[3].rotate_left(45);
        r
    }
    /// uniform in 0..n (n > 0)
    pub fn below(&mut self, n: usize) -> usize {
        debug_assert!(n > 0);
        ((self.next_u64() as u128 * n as u128) >> 64) as usize
    }
    /// uniform in lo..=hi
    pub fn range(&mut self, lo: usize, hi: usize) -> usize {
        lo + self.below(hi - lo + 1)
    }
    pub fn irange(&mut self, lo: i64, hi: i64) -> i64 {
        lo + self.below((hi - lo + 1) as usize) as i64
    }
    pub fn unit(&mut self) -> f64 {
        (self.next_u64() >> 11) as f64 / (1u64 << 53) as f64
    }
    pub fn uniform(&mut self, lo: f64, hi: f64) -> f64 {
        lo + (hi - lo) * self.unit()
    }
    pub fn chance(&mut self, p: f64) -> bool {
        self.unit() < p
    }
    pub fn coin(&mut self) -> bool {
        self.next_u64() & 1 == 1
    }
    pub fn pick<'a, T>(&mut self, v: &'a [T]) -> &'a T {
        &v[self.below(v.len())]
    }
    pub fn shuffle<T>(&mut self, v: &mut [T]) {
        for i in (1..v.len()).rev() {
            let j = self.below(i + 1);
            v.swap(i, j);
        }
    }
    pub fn normal(&mut self) -> f64 {
        // Box-Muller
        let u1 = 1.0 - self.unit();
        let u2 = self.unit();
        (-2.0 * u1.ln()).sqrt() * (2.0 * std::f64::consts::PI * u2).cos()
    }
    pub fn sign(&mut self) -> f64 {
        if self.coin() { 1.0 } else { -1.0 }
    }
    /// log-uniform magnitude between 10^a and 10^b
    pub fn logu(&mut self, a: f64, b: f64) -> f64 {
        10f64.powf(self.uniform(a, b))
    }
    /// choose k distinct values from 0..n
    pub fn choose(&mut self, n: usize, k: usize) -> Vec<usize> {
        let mut v: Vec<usize> = (0..n).collect();
        let k = k.min(n);
        for i in 0..k {
            let j = i + self.below(n - i);
            v.swap(i, j);
        }
        v.truncate(k);
        v
    }
}
