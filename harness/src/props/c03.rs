//! C03 – both decoding schedules are textbook belief propagation for any arithmetic.
//!
//! 1. differential: real generic decoders with the exact `IntMinSum` arithmetic
//!    vs the harness' dense-table textbook schedules (results must be EQUAL);
//! 2. data-flow conformance of the call trace (`Trace<A>`) for every built-in
//!    arithmetic and IntMinSum: inputs of every call must be exactly the
//!    previously logged outputs routed as the textbook says;
//! 3. exact posteriors on forests with the sum-product arithmetics.

use crate::ctx::{Local, Run, guard, panic_class};
use crate::genm::{self, Mat, sign_pattern};
use crate::impls::ARITH_NAMES;
use crate::json::jfs;
use crate::num::Num;
use crate::oracle::{Graph, all_codewords, is_codeword, posterior_llrs};
use crate::rng::{Dig, Rng};
use crate::trace::{Event, IntMinSum, Trace};
use crate::with_arith;
use ldpc_toolbox::decoder::arithmetic::DecoderArithmetic;
use ldpc_toolbox::decoder::{DecoderOutput, Message, SentMessage, flooding, horizontal_layered};

type Res = Result<DecoderOutput, DecoderOutput>;

fn fmt_res(r: &Res) -> String {
    match r {
        Ok(o) => format!("Ok(iter={}, word={:?})", o.iterations, o.codeword),
        Err(o) => format!("Err(iter={}, word={:?})", o.iterations, o.codeword),
    }
}

// ---------------------------------------------------------------- textbook schedules (dense tables)

/// Textbook flooding BP over dense [check][var] tables, generic over the arithmetic.
pub fn textbook_flooding<A: DecoderArithmetic>(a: &mut A, m: &Mat, llrs: &[f64], limit: usize) -> Res {
    let (r, n) = (m.rows, m.cols);
    let s = sign_pattern(llrs);
    if is_codeword(r, &m.e, &s) {
        return Ok(DecoderOutput { codeword: s, iterations: 0 });
    }
    let rows = m.row_lists();
    let cols = m.col_lists();
    let q: Vec<A::Llr> = llrs.iter().map(|&x| a.input_llr_quantize(x)).collect();
    let mut vc: Vec<Vec<Option<A::VarMessage>>> = vec![vec![None; n]; r];
    let mut cv: Vec<Vec<Option<A::CheckMessage>>> = vec![vec![None; n]; r];
    for v in 0..n {
        for &c in &cols[v] {
            vc[c][v] = Some(a.llr_to_var_message(q[v]));
        }
    }
    let mut est: Vec<A::Llr> = q.clone(); // zero iterations => estimate = channel value
    let hard = |a: &A, est: &Vec<A::Llr>| -> Vec<u8> { est.iter().map(|&x| a.llr_hard_decision(x) as u8).collect() };
    for it in 1..=limit {
        // all check-to-variable messages from the PREVIOUS variable-to-check messages
        for c in 0..r {
            let msgs: Vec<Message<A::VarMessage>> = rows[c].iter().map(|&v| Message { source: v, value: vc[c][v].unwrap() }).collect();
            let cvc = &mut cv[c];
            a.send_check_messages(&msgs, |sm: SentMessage<A::CheckMessage>| cvc[sm.dest] = Some(sm.value));
        }
        // then all variable updates
        for v in 0..n {
            let msgs: Vec<Message<A::CheckMessage>> = cols[v].iter().map(|&c| Message { source: c, value: cv[c][v].unwrap() }).collect();
            let mut outs: Vec<(usize, A::VarMessage)> = Vec::new();
            est[v] = a.send_var_messages(q[v], &msgs, |sm: SentMessage<A::VarMessage>| outs.push((sm.dest, sm.value)));
            for (c, val) in outs {
                vc[c][v] = Some(val);
            }
        }
        let w = hard(a, &est);
        if is_codeword(r, &m.e, &w) {
            return Ok(DecoderOutput { codeword: w, iterations: it });
        }
    }
    Err(DecoderOutput {
        codeword: hard(a, &est),
        iterations: limit,
    })
}

/// Textbook horizontal-layered BP: checks one by one in row order with immediate variable updates.
pub fn textbook_layered<A: DecoderArithmetic>(a: &mut A, m: &Mat, llrs: &[f64], limit: usize) -> Res {
    let (r, n) = (m.rows, m.cols);
    let s = sign_pattern(llrs);
    if is_codeword(r, &m.e, &s) {
        return Ok(DecoderOutput { codeword: s, iterations: 0 });
    }
    let rows = m.row_lists();
    let mut lv: Vec<A::VarLlr> = llrs.iter().map(|&x| a.llr_to_var_llr(a.input_llr_quantize(x))).collect();
    let mut rc: Vec<Vec<SentMessage<A::CheckMessage>>> = rows
        .iter()
        .map(|row| row.iter().map(|&v| SentMessage { dest: v, value: A::CheckMessage::default() }).collect())
        .collect();
    let _ = n;
    let hard = |a: &A, lv: &Vec<A::VarLlr>| -> Vec<u8> { lv.iter().map(|&x| a.llr_hard_decision(a.var_llr_to_llr(x)) as u8).collect() };
    for it in 1..=limit {
        for c in 0..r {
            a.update_check_messages_and_vars(&mut rc[c], &mut lv);
        }
        let w = hard(a, &lv);
        if is_codeword(r, &m.e, &w) {
            return Ok(DecoderOutput { codeword: w, iterations: it });
        }
    }
    Err(DecoderOutput {
        codeword: hard(a, &lv),
        iterations: limit,
    })
}

// ---------------------------------------------------------------- monitor 1: differential with IntMinSum

fn small_int_llrs(rng: &mut Rng, n: usize, cw: &[u8]) -> Vec<f64> {
    match rng.below(4) {
        0 => (0..n).map(|_| rng.irange(-3, 3) as f64).collect(),
        1 => (0..n).map(|_| rng.irange(-1, 1) as f64).collect(),
        2 => (0..n)
            .map(|i| {
                let s = if cw[i] == 1 { -1.0 } else { 1.0 };
                s * rng.irange(1, 4) as f64 * if rng.chance(0.2) { -1.0 } else { 1.0 }
            })
            .collect(),
        _ => (0..n).map(|_| rng.irange(-20, 20) as f64).collect(),
    }
}

fn differential(l: &mut Local, m: &Mat, rng: &mut Rng) {
    let cw = genm::random_codeword(rng, m);
    let h = if rng.coin() { m.to_sparse() } else { m.to_sparse_shuffled(rng) };
    let mut fl = flooding::Decoder::new(h.clone(), IntMinSum);
    let mut hl = horizontal_layered::Decoder::new(h, IntMinSum);
    let mut md = Dig::new();
    md.u(m.rows as u64).entries(&m.e);
    for _ in 0..10 {
        let llrs = small_int_llrs(rng, m.cols, &cw);
        for &limit in &[0usize, 1, 2, 3, 7, 12] {
            for sched in ["flooding", "layered"] {
                l.eval();
                let got = if sched == "flooding" { guard(|| fl.decode(&llrs, limit)) } else { guard(|| hl.decode(&llrs, limit)) };
                let want = if sched == "flooding" { textbook_flooding(&mut IntMinSum, m, &llrs, limit) } else { textbook_layered(&mut IntMinSum, m, &llrs, limit) };
                match got {
                    Err(p) => {
                        l.violation(
                            format!("generic {} decoder panicked with a user-defined arithmetic: {}", sched, panic_class(&p)),
                            m.json().set("llrs", jfs(&llrs)).set("limit", limit).set("panic", p),
                        );
                        return;
                    }
                    Ok(g) => {
                        if g != want {
                            let what = match (&g, &want) {
                                (Ok(_), Err(_)) | (Err(_), Ok(_)) => "verdict",
                                (Ok(a), Ok(b)) | (Err(a), Err(b)) if a.iterations != b.iterations => "iteration count",
                                _ => "word",
                            };
                            l.violation(
                                format!("{} decoder with exact integer min-sum differs from the textbook schedule ({}, limit {})", sched, what, if limit == 0 { "0" } else { ">=1" }),
                                m.json().set("llrs", jfs(&llrs)).set("limit", limit).set("decoder", fmt_res(&g)).set("textbook", fmt_res(&want)),
                            );
                            return;
                        }
                        let iters = match &g {
                            Ok(o) | Err(o) => o.iterations,
                        };
                        if iters >= 2 {
                            let mut d = md.clone();
                            d.s(sched).fs(&llrs).u(limit as u64);
                            l.nt(d.get());
                        }
                    }
                }
            }
        }
    }
    // the largest representable limits on an input the textbook schedule decodes within 12 iterations
    let llrs = small_int_llrs(rng, m.cols, &cw);
    for sched in ["flooding", "layered"] {
        let want = if sched == "flooding" { textbook_flooding(&mut IntMinSum, m, &llrs, 12) } else { textbook_layered(&mut IntMinSum, m, &llrs, 12) };
        if want.is_err() {
            continue;
        }
        // (only when the decoder itself agrees at the finite limit: otherwise the difference is reported as such,
        // and an unlimited call on a decoder that does not converge would never return)
        let same_at_12 = if sched == "flooding" { guard(|| fl.decode(&llrs, 12)) } else { guard(|| hl.decode(&llrs, 12)) };
        match same_at_12 {
            Ok(g) if g == want => {}
            Ok(g) => {
                l.violation(
                    format!("{} decoder with exact integer min-sum differs from the textbook schedule (limit 12)", sched),
                    m.json().set("llrs", jfs(&llrs)).set("limit", 12).set("decoder", fmt_res(&g)).set("textbook", fmt_res(&want)),
                );
                return;
            }
            Err(p) => {
                l.violation(format!("generic {} decoder panicked with a user-defined arithmetic: {}", sched, panic_class(&p)), m.json().set("llrs", jfs(&llrs)).set("limit", 12).set("panic", p));
                return;
            }
        }
        for limit in [usize::MAX, usize::MAX - 1] {
            l.eval();
            let got = if sched == "flooding" { guard(|| fl.decode(&llrs, limit)) } else { guard(|| hl.decode(&llrs, limit)) };
            match got {
                Err(p) => {
                    l.violation(
                        format!("generic {} decoder panicked with the largest iteration limit: {}", sched, panic_class(&p)),
                        m.json().set("llrs", jfs(&llrs)).set("limit", limit).set("panic", p),
                    );
                    return;
                }
                Ok(g) => {
                    if g != want {
                        l.violation(
                            format!("{} decoder with exact integer min-sum differs from the textbook schedule (unlimited iterations)", sched),
                            m.json().set("llrs", jfs(&llrs)).set("limit", limit).set("decoder", fmt_res(&g)).set("textbook", fmt_res(&want)),
                        );
                        return;
                    }
                    l.count("unlimited_iteration_limit_calls");
                }
            }
        }
    }
    l.sample(|| m.json().set("monitor", "differential IntMinSum"));
}

// ---------------------------------------------------------------- monitor 2: trace conformance

fn bits_eq(a: f64, b: f64) -> bool {
    a.to_bits() == b.to_bits()
}

fn sorted_pairs(v: &[(usize, f64)]) -> Vec<(usize, u64)> {
    let mut s: Vec<(usize, u64)> = v.iter().map(|&(i, x)| (i, x.to_bits())).collect();
    s.sort_unstable();
    s
}

/// Check the flooding call trace against the textbook data flow.
/// Returns Err(description) on the first non-conformance; Ok(number of events checked, iterations seen).
fn conform_flooding<A>(a2: &A, m: &Mat, llrs: &[f64], limit: usize, log: &[Event], res: &Res) -> Result<(usize, usize), String>
where
    A: DecoderArithmetic,
    A::Llr: Num,
{
    let (r, n) = (m.rows, m.cols);
    let rows = m.row_lists();
    let cols = m.col_lists();
    let s = sign_pattern(llrs);
    if is_codeword(r, &m.e, &s) {
        // shortcut: no arithmetic call needed; result must be the sign pattern
        return match res {
            Ok(o) if o.iterations == 0 && o.codeword == s => Ok((log.len(), 0)),
            _ => Err("input sign pattern is a codeword but the result is not Ok(sign pattern, 0)".into()),
        };
    }
    let mut i = 0usize;
    // n quantiser calls in index order
    let mut q = vec![0f64; n];
    for v in 0..n {
        match log.get(i) {
            Some(Event::Quantize { input, out }) if bits_eq(*input, llrs[v]) => q[v] = *out,
            other => return Err(format!("expected quantiser call #{} on channel LLR {} but saw {:?}", v, llrs[v], other)),
        }
        i += 1;
    }
    // initial variable messages = llr_to_var_message(q_v) on every edge
    let mut vc: Vec<Vec<Option<f64>>> = vec![vec![None; n]; r]; // [c][v]
    let nedges = m.e.len();
    for _ in 0..nedges {
        match log.get(i) {
            Some(Event::LlrToVarMsg { llr, out }) => {
                // attribute to some variable with that quantised value that still lacks an initial message
                let mut done = false;
                'f: for v in 0..n {
                    if bits_eq(q[v], *llr) {
                        for &c in &cols[v] {
                            if vc[c][v].is_none() {
                                vc[c][v] = Some(*out);
                                done = true;
                                break 'f;
                            }
                        }
                    }
                }
                if !done {
                    return Err(format!("initial variable message computed from {} which is not the quantised channel LLR of any variable with a pending edge", llr));
                }
            }
            other => return Err(format!("expected an initial llr_to_var_message call, saw {:?}", other)),
        }
        i += 1;
    }
    let mut cv: Vec<Vec<Option<f64>>> = vec![vec![None; n]; r];
    let mut est: Vec<f64> = q.clone();
    let mut iterations_seen = 0usize;
    let mut first_success: Option<usize> = None;
    let hard = |est: &Vec<f64>| -> Vec<u8> { est.iter().map(|&x| a2.llr_hard_decision(<A::Llr as Num>::from_f64(x)) as u8).collect() };
    let skip_hd = |i: &mut usize, est: &Vec<f64>| -> Result<(), String> {
        while let Some(Event::HardDecision { llr, .. }) = log.get(*i) {
            if !est.iter().any(|x| bits_eq(*x, *llr)) {
                return Err(format!("hard decision requested on {} which is not a current output LLR", llr));
            }
            *i += 1;
        }
        Ok(())
    };
    for it in 1..=limit {
        // check pass: one send_check_messages per row, inputs = current vc of that row
        let mut pending: Vec<bool> = vec![true; r];
        let mut new_cv: Vec<Vec<Option<f64>>> = vec![vec![None; n]; r];
        for _ in 0..r {
            match log.get(i) {
                Some(Event::SendCheck { inputs, outputs }) => {
                    let key = sorted_pairs(inputs);
                    let mut found = None;
                    for c in 0..r {
                        if !pending[c] {
                            continue;
                        }
                        let model: Vec<(usize, f64)> = rows[c].iter().map(|&v| (v, vc[c][v].unwrap())).collect();
                        if sorted_pairs(&model) == key {
                            found = Some(c);
                            break;
                        }
                    }
                    let Some(c) = found else {
                        return Err(format!(
                            "iteration {}: a check node received {:?}, which is not the current variable-to-check messages of any pending check",
                            it, inputs
                        ));
                    };
                    pending[c] = false;
                    let mut dests: Vec<usize> = outputs.iter().map(|x| x.0).collect();
                    dests.sort_unstable();
                    if dests != rows[c] {
                        return Err(format!("iteration {}: check {} emitted to {:?}, neighbours are {:?}", it, c, dests, rows[c]));
                    }
                    for &(v, val) in outputs {
                        new_cv[c][v] = Some(val);
                    }
                }
                other => return Err(format!("iteration {}: expected the check pass (send_check_messages), saw {:?}", it, other)),
            }
            i += 1;
        }
        cv = new_cv;
        // variable pass: one send_var_messages per column
        let mut pendv: Vec<bool> = vec![true; n];
        let mut new_vc = vc.clone();
        for _ in 0..n {
            match log.get(i) {
                Some(Event::SendVar { input_llr, inputs, outputs, ret }) => {
                    let key = sorted_pairs(inputs);
                    let mut found = None;
                    for v in 0..n {
                        if !pendv[v] || !bits_eq(q[v], *input_llr) {
                            continue;
                        }
                        let model: Vec<(usize, f64)> = cols[v].iter().map(|&c| (c, cv[c][v].unwrap())).collect();
                        if sorted_pairs(&model) == key {
                            found = Some(v);
                            break;
                        }
                    }
                    let Some(v) = found else {
                        return Err(format!(
                            "iteration {}: a variable node received channel value {} and messages {:?}, which is not (channel LLR, this iteration's check-to-variable messages) of any pending variable",
                            it, input_llr, inputs
                        ));
                    };
                    pendv[v] = false;
                    let mut dests: Vec<usize> = outputs.iter().map(|x| x.0).collect();
                    dests.sort_unstable();
                    if dests != cols[v] {
                        return Err(format!("iteration {}: variable {} emitted to {:?}, neighbours are {:?}", it, v, dests, cols[v]));
                    }
                    for &(c, val) in outputs {
                        new_vc[c][v] = Some(val);
                    }
                    est[v] = *ret;
                }
                other => return Err(format!("iteration {}: expected the variable pass (send_var_messages) after all checks, saw {:?}", it, other)),
            }
            i += 1;
        }
        vc = new_vc;
        iterations_seen = it;
        // syndrome test after every full iteration
        if !matches!(log.get(i), Some(Event::HardDecision { .. })) {
            return Err(format!("iteration {}: no hard decision requested after the full iteration (syndrome must be tested)", it));
        }
        skip_hd(&mut i, &est)?;
        let w = hard(&est);
        if is_codeword(r, &m.e, &w) {
            first_success = Some(it);
            // result must be Ok(w, it)
            return match res {
                Ok(o) if o.iterations == it && o.codeword == w => {
                    if i != log.len() {
                        Err(format!("decoder kept calling the arithmetic after the syndrome was satisfied at iteration {}", it))
                    } else {
                        Ok((i, iterations_seen))
                    }
                }
                _ => Err(format!("logged hard decisions satisfy every check after iteration {} but the decoder returned {}", it, fmt_res(res))),
            };
        }
    }
    let _ = first_success;
    skip_hd(&mut i, &est)?;
    if i != log.len() {
        return Err(format!("{} unexpected extra arithmetic calls after the last iteration", log.len() - i));
    }
    let w = hard(&est);
    match res {
        Err(o) if o.iterations == limit && o.codeword == w => Ok((i, iterations_seen)),
        _ => Err(format!("no iteration satisfied the syndrome but the decoder returned {} (expected Err with the hard decision of the last estimates)", fmt_res(res))),
    }
}

fn conform_layered<A>(a2: &A, m: &Mat, llrs: &[f64], limit: usize, log: &[Event], res: &Res) -> Result<(usize, usize), String>
where
    A: DecoderArithmetic,
    A::Llr: Num,
    A::VarLlr: Num,
    A::CheckMessage: Num,
{
    let (r, n) = (m.rows, m.cols);
    let rows = m.row_lists();
    let s = sign_pattern(llrs);
    if is_codeword(r, &m.e, &s) {
        return match res {
            Ok(o) if o.iterations == 0 && o.codeword == s => Ok((log.len(), 0)),
            _ => Err("input sign pattern is a codeword but the result is not Ok(sign pattern, 0)".into()),
        };
    }
    let mut i = 0usize;
    let mut lv = vec![0f64; n];
    for v in 0..n {
        let qv = match log.get(i) {
            Some(Event::Quantize { input, out }) if bits_eq(*input, llrs[v]) => *out,
            other => return Err(format!("expected quantiser call #{} on channel LLR {}, saw {:?}", v, llrs[v], other)),
        };
        i += 1;
        match log.get(i) {
            Some(Event::LlrToVarLlr { llr, out }) if bits_eq(*llr, qv) => lv[v] = *out,
            other => return Err(format!("expected llr_to_var_llr of the quantised channel LLR of variable {}, saw {:?}", v, other)),
        }
        i += 1;
    }
    let default = <A::CheckMessage as Num>::to_f64(A::CheckMessage::default());
    let mut rc: Vec<Vec<(usize, f64)>> = rows.iter().map(|row| row.iter().map(|&v| (v, default)).collect()).collect();
    let hard = |lv: &Vec<f64>| -> Vec<u8> {
        lv.iter()
            .map(|&x| a2.llr_hard_decision(a2.var_llr_to_llr(<A::VarLlr as Num>::from_f64(x))) as u8)
            .collect()
    };
    let skip_hd = |i: &mut usize| {
        while matches!(log.get(*i), Some(Event::HardDecision { .. }) | Some(Event::VarLlrToLlr { .. })) {
            *i += 1;
        }
    };
    let mut iterations_seen = 0;
    for it in 1..=limit {
        for c in 0..r {
            match log.get(i) {
                Some(Event::Update { before, vars_before, after, vars_after }) => {
                    let mut dests: Vec<usize> = before.iter().map(|x| x.0).collect();
                    dests.sort_unstable();
                    if dests != rows[c] {
                        return Err(format!("iteration {}: layer #{} processes check with variables {:?}, textbook row order expects check {} = {:?}", it, c, dests, c, rows[c]));
                    }
                    if sorted_pairs(before) != sorted_pairs(&rc[c]) {
                        return Err(format!(
                            "iteration {}: check {} starts from messages {:?}, but the messages left by the previous iteration (zero on the first) are {:?}",
                            it, c, before, rc[c]
                        ));
                    }
                    if vars_before.len() != n || !vars_before.iter().zip(&lv).all(|(a, b)| bits_eq(*a, *b)) {
                        return Err(format!("iteration {}: check {} sees variable LLRs {:?}, the immediately updated values are {:?}", it, c, vars_before, lv));
                    }
                    let mut d2: Vec<usize> = after.iter().map(|x| x.0).collect();
                    d2.sort_unstable();
                    if d2 != rows[c] {
                        return Err(format!("iteration {}: check {} changed its neighbour set", it, c));
                    }
                    rc[c] = after.clone();
                    lv = vars_after.clone();
                }
                other => return Err(format!("iteration {}: expected the layered update of check {}, saw {:?}", it, c, other)),
            }
            i += 1;
        }
        iterations_seen = it;
        if !matches!(log.get(i), Some(Event::HardDecision { .. }) | Some(Event::VarLlrToLlr { .. })) {
            return Err(format!("iteration {}: no hard decision requested after the full iteration (syndrome must be tested)", it));
        }
        skip_hd(&mut i);
        let w = hard(&lv);
        if is_codeword(r, &m.e, &w) {
            return match res {
                Ok(o) if o.iterations == it && o.codeword == w => {
                    if i != log.len() {
                        Err(format!("decoder kept calling the arithmetic after the syndrome was satisfied at iteration {}", it))
                    } else {
                        Ok((i, iterations_seen))
                    }
                }
                _ => Err(format!("logged variable LLRs satisfy every check after iteration {} but the decoder returned {}", it, fmt_res(res))),
            };
        }
    }
    skip_hd(&mut i);
    if i != log.len() {
        return Err(format!("{} unexpected extra arithmetic calls after the last iteration", log.len() - i));
    }
    let w = hard(&lv);
    match res {
        Err(o) if o.iterations == limit && o.codeword == w => Ok((i, iterations_seen)),
        _ => Err(format!("no iteration satisfied the syndrome but the decoder returned {} (expected Err with the hard decision of the last variable LLRs)", fmt_res(res))),
    }
}

fn trace_case<A>(l: &mut Local, name: &str, mk: &dyn Fn() -> A, m: &Mat, rng: &mut Rng)
where
    A: DecoderArithmetic,
    A::Llr: Num,
    A::CheckMessage: Num,
    A::VarMessage: Num,
    A::VarLlr: Num,
{
    let cw = genm::random_codeword(rng, m);
    let h = if rng.coin() { m.to_sparse() } else { m.to_sparse_shuffled(rng) };
    let (tf, logf) = Trace::new(mk());
    let (tl, logl) = Trace::new(mk());
    let mut fl = flooding::Decoder::new(h.clone(), tf);
    let mut hl = horizontal_layered::Decoder::new(h, tl);
    let a2 = mk();
    let int = name == "IntMinSum";
    for k in 0..6 {
        let llrs: Vec<f64> = if int {
            small_int_llrs(rng, m.cols, &cw)
        } else {
            let class = [0usize, 7, 5, 9, 4, 3][k % 6];
            genm::llr_vector(rng, m.cols, class, Some(&cw)).into_iter().map(|x| x.clamp(-40.0, 40.0)).collect()
        };
        let limit = *rng.pick(&[0usize, 1, 2, 3, 6]);
        for sched in ["flooding", "layered"] {
            l.eval();
            let (res, log) = if sched == "flooding" {
                logf.lock().unwrap().clear();
                let r = guard(|| fl.decode(&llrs, limit));
                (r, logf.lock().unwrap().clone())
            } else {
                logl.lock().unwrap().clear();
                let r = guard(|| hl.decode(&llrs, limit));
                (r, logl.lock().unwrap().clone())
            };
            let res = match res {
                Err(p) => {
                    l.violation(
                        format!("generic {} decoder panicked under the tracing arithmetic ({}): {}", sched, name, panic_class(&p)),
                        m.json().set("arithmetic", name).set("llrs", jfs(&llrs)).set("limit", limit).set("panic", p),
                    );
                    return;
                }
                Ok(r) => r,
            };
            let verdict = if sched == "flooding" { conform_flooding(&a2, m, &llrs, limit, &log, &res) } else { conform_layered(&a2, m, &llrs, limit, &log, &res) };
            match verdict {
                Err(why) => {
                    // signature: schedule + the first clause of the description without numbers
                    // stable class: drop the "iteration N:" prefix, cut at the first data-dependent character
                    let mut w = why.as_str();
                    if let Some(rest) = w.strip_prefix("iteration ") {
                        if let Some(p) = rest.find(": ") {
                            w = &rest[p + 2..];
                        }
                    }
                    let cut = w.find(|c: char| c.is_ascii_digit() || matches!(c, '[' | '{' | '(' | '#')).unwrap_or(w.len());
                    let class: String = w[..cut].trim().chars().take(90).collect();
                    l.violation(
                        format!("{} call trace does not conform to the textbook data flow: {}", sched, class),
                        m.json()
                            .set("arithmetic", name)
                            .set("llrs", jfs(&llrs))
                            .set("limit", limit)
                            .set("why", why)
                            .set("result", fmt_res(&res))
                            .set("trace_events", log.len()),
                    );
                    return;
                }
                Ok((events, iters)) => {
                    l.count_n("trace_events_checked", events as u64);
                    if iters >= 2 {
                        let mut d = Dig::new();
                        d.s(name).s(sched).entries(&m.e).fs(&llrs).u(limit as u64);
                        l.nt(d.get());
                    }
                }
            }
        }
    }
    l.sample(|| m.json().set("monitor", "trace conformance").set("arithmetic", name));
}

// ---------------------------------------------------------------- monitor 3: posteriors on forests

fn forest_with_odd_check(rng: &mut Rng) -> Option<Mat> {
    for _ in 0..20 {
        let m = genm::forest(rng, 6, 12);
        if m.cols <= 14 && m.row_weights().iter().any(|w| w % 2 == 1) {
            return Some(m);
        }
    }
    None
}

fn posterior_case<A>(l: &mut Local, name: &str, mk: &dyn Fn() -> A, rng: &mut Rng, star: bool)
where
    A: DecoderArithmetic,
    A::Llr: Num,
    A::CheckMessage: Num,
    A::VarMessage: Num,
    A::VarLlr: Num,
{
    // star: one check of odd degree 33..79 (a single-parity-check code; its posteriors have a closed form), so that
    // check nodes far above the usual degrees are covered by the exactness clause as well
    let m = if star {
        let d = 33 + 2 * rng.below(24);
        Mat::new(1, d, (0..d).map(|c| (0, c)).collect(), "single-parity-check-star")
    } else {
        let Some(m) = forest_with_odd_check(rng) else { return };
        m
    };
    let g = Graph::new(m.rows, m.cols, &m.e);
    if !g.is_forest() {
        panic!("forest generator produced a cycle");
    }
    let diam = g.diameter();
    let limit = diam + 2;
    let f32t = name.ends_with("f32");
    // accuracy of phi/tanh degrades like u*e^|L| (see C04): the exactness clause is
    // judged only while every value in the trace stays inside the accurate range
    // a quarter of the forest cases uses the wide regime: channel LLRs up to 28 (f64) / 11 (f32), i.e. messages in
    // the upper half of the rules' own working range (tanh clamps at 36 / 18); the tolerance there carries the rules'
    // inherent error 128u*e^|L| (|L| = largest value seen in the trace)
    let wide = !star && rng.chance(0.25);
    let (tol, range, maxllr) = match (f32t, wide) {
        (true, false) => (1e-3, 8.0, 2.5),
        (false, false) => (1e-6, 20.0, 8.0),
        (true, true) => (1e-3, 11.5, 10.5),
        (false, true) => (1e-6, 32.0, 28.0),
    };
    let unit = if f32t { 6.0e-8 } else { 1.1e-16 };
    // LLRs with 0.1 <= |x| <= maxllr whose sign pattern is NOT a codeword (otherwise the decoder returns at once)
    let mut llrs: Vec<f64> = (0..m.cols).map(|_| rng.uniform(0.1, maxllr) * rng.sign()).collect();
    if f32t {
        llrs = llrs.into_iter().map(|x| x as f32 as f64).collect();
    }
    // erased / punctured bits: exact zeros (one or two positions) in a third of the cases
    let erased = !f32t && rng.chance(0.33); // (f32: the phi clamp at 1e-30 costs ~4e-6 absolute on the phi sums, too close to the f32 tolerance)
    if erased {
        for _ in 0..rng.range(1, 2) {
            let i = rng.below(m.cols);
            llrs[i] = if rng.coin() { 0.0 } else { -0.0 };
        }
    }
    if is_codeword(m.rows, &m.e, &sign_pattern(&llrs)) {
        // change the sign pattern at a non-erased variable that is in some check
        let v = m.e.iter().map(|x| x.1).find(|&v| llrs[v] != 0.0).unwrap_or(m.e[0].1);
        llrs[v] = if llrs[v] == 0.0 { 1.0 } else { -llrs[v] };
    }
    if is_codeword(m.rows, &m.e, &sign_pattern(&llrs)) {
        return; // (cannot happen: one sign of a checked variable was flipped)
    }
    let post = if star {
        // posterior of bit i in a single-parity-check code: its own LLR plus the box-plus of all the others
        (0..m.cols).map(|i| llrs[i] + crate::oracle::boxplus_excl(&llrs, i)).collect::<Vec<f64>>()
    } else {
        let cws = all_codewords(m.rows, m.cols, &m.e);
        posterior_llrs(&cws, &llrs)
    };
    let h = if rng.coin() { m.to_sparse() } else { m.to_sparse_shuffled(rng) };
    for sched in ["flooding", "layered"] {
        l.eval();
        let (mut t, log) = Trace::new(mk());
        t.force_hard = Some(true); // all-ones can never satisfy the odd-weight check: decoder runs all iterations
        let res = if sched == "flooding" {
            let mut d = flooding::Decoder::new(h.clone(), t);
            guard(|| d.decode(&llrs, limit))
        } else {
            let mut d = horizontal_layered::Decoder::new(h.clone(), t);
            guard(|| d.decode(&llrs, limit))
        };
        if let Err(p) = res {
            l.violation(format!("{} decoder panicked on a forest ({}): {}", sched, name, panic_class(&p)), m.json().set("llrs", jfs(&llrs)).set("panic", p));
            continue;
        }
        let log = log.lock().unwrap().clone();
        let mut maxmag: f64 = 0.0;
        for e in &log {
            match e {
                Event::SendCheck { inputs, outputs } => {
                    for x in inputs.iter().chain(outputs.iter()) {
                        maxmag = maxmag.max(x.1.abs());
                    }
                }
                Event::SendVar { ret, .. } => maxmag = maxmag.max(ret.abs()),
                Event::Update { vars_after, after, .. } => {
                    for x in vars_after {
                        maxmag = maxmag.max(x.abs());
                    }
                    for x in after {
                        maxmag = maxmag.max(x.1.abs());
                    }
                }
                _ => {}
            }
        }
        if !(maxmag <= range) {
            l.count(&format!("posterior_skipped_outside_accurate_range{}:{}", if wide { "_wide" } else { "" }, name));
            continue;
        }
        // reconstruct per-iteration per-variable LLRs from the trace
        let mut per_iter: Vec<Vec<f64>> = Vec::new();
        if sched == "flooding" {
            // SendVar events come in blocks of n per iteration; map to variables by (input_llr, dest set)
            let cols = m.col_lists();
            let mut cur: Vec<Option<f64>> = vec![None; m.cols];
            for e in &log {
                if let Event::SendVar { input_llr, outputs, ret, .. } = e {
                    let mut dests: Vec<usize> = outputs.iter().map(|x| x.0).collect();
                    dests.sort_unstable();
                    if let Some(v) = (0..m.cols).find(|&v| cur[v].is_none() && cols[v] == dests && (llrs[v] - *input_llr).abs() <= 1e-6 * (1.0 + llrs[v].abs())) {
                        cur[v] = Some(*ret);
                    }
                    if cur.iter().all(|x| x.is_some()) {
                        per_iter.push(cur.iter().map(|x| x.unwrap()).collect());
                        cur = vec![None; m.cols];
                    }
                }
            }
        } else {
            let mut cnt = 0;
            for e in &log {
                if let Event::Update { vars_after, .. } = e {
                    cnt += 1;
                    if cnt % m.rows == 0 {
                        per_iter.push(vars_after.clone());
                    }
                }
            }
        }
        if per_iter.len() != limit {
            l.violation(
                format!("{} decoder did not run the requested iterations on a forest with the syndrome never satisfied", sched),
                m.json().set("arithmetic", name).set("iterations_observed", per_iter.len()).set("limit", limit),
            );
            continue;
        }
        let mut ok = true;
        for (it, est) in per_iter.iter().enumerate() {
            let it = it + 1;
            if it < diam.max(1) {
                continue;
            }
            for v in 0..m.cols {
                let err = (est[v] - post[v]).abs();
                l.max(&format!("max_posterior_error:{}:{}", sched, name), err);
                let allowed = tol * (1.0 + post[v].abs()) + if wide { 128.0 * unit * maxmag.exp() } else { 0.0 };
                l.max(if wide { "max_posterior_error_over_allowance_wide" } else { "max_posterior_error_over_allowance" }, err / allowed);
                if !(err <= allowed) {
                    l.violation(
                        format!("{} decoder with {} does not give the exact posterior LLRs on a cycle-free matrix", sched, name),
                        m.json()
                            .set("llrs", jfs(&llrs))
                            .set("iteration", it)
                            .set("diameter", diam)
                            .set("variable", v)
                            .set("decoder_llr", est[v])
                            .set("posterior_llr", post[v])
                            .set("all_decoder_llrs", jfs(est))
                            .set("all_posterior_llrs", jfs(&post)),
                    );
                    ok = false;
                    break;
                }
            }
            if !ok {
                break;
            }
        }
        if ok && wide {
            l.count(&format!("posterior_wide_regime_judged:{}", name));
        }
        if ok && limit >= 2 {
            let mut d = Dig::new();
            d.s(name).s(sched).entries(&m.e).fs(&llrs);
            l.nt(d.get());
        }
    }
    l.sample(|| m.json().set("monitor", "posterior on forest").set("arithmetic", name).set("diameter", diam).set("llrs", jfs(&llrs)).set("posterior", jfs(&post)));
}

pub fn run(run: &mut Run) {
    run.rule = "through the public generic flooding::Decoder<A> / horizontal_layered::Decoder<A>: (1) exact integer min-sum arithmetic (checker-supplied) vs dense-table textbook schedules, results must be equal, small-integer LLRs, limits {0,1,2,3,7,12} (bounded so that the exact i64 arithmetic cannot overflow) and usize::MAX, usize::MAX-1 on inputs the textbook schedule decodes; (2) Trace<A> wrapper around all 24 built-in arithmetics and IntMinSum logs every trait call; the checker requires the inputs of every call to be exactly the previously logged outputs routed as the textbook says (bit for bit), the check pass before the variable pass, layered rows in index order starting from the previous iteration's messages, a syndrome test after every full iteration and the returned verdict/word/iteration = first iteration whose logged hard decisions satisfy H; (3) forests with check degree >= 2, n <= 14, and single-parity-check stars of odd degree 33..79 (closed-form posterior): per-variable LLRs at every iteration >= diameter vs brute-force posteriors (Phi/Tanh f64: relative 1e-6 while all trace values <= 20; f32: 1e-3 while all trace values <= 8; a quarter of the cases in the wide regime, trace values up to 32 / 11.5 with the additional allowance 128u*e^|L|; cases outside the range are counted and skipped); matrices inserted in sorted or shuffled order; non-trivial = >= 2 iterations executed; distinct by (schedule, arithmetic, matrix, LLR, limit) digest".into();
    run.assumptions = vec![
        "message order inside a slice is not constrained (sets keyed by source/dest)".into(),
        "posterior clause uses 0.1 <= |LLR| <= 8 (f64) / 2.5 (f32) and is judged only while every message stays inside the accurate range of phi/tanh (error grows like u*e^|L|, see C04)".into(),
    ];
    let n1 = if cfg!(miri) { 3 } else { run.tier.n(40_000, 1_500_000) };
    run.sub("differential-intminsum", n1, |l, _idx, rng| {
        let m = genm::decoder_matrix(rng, 6, 12);
        differential(l, &m, rng);
    });
    let per = if cfg!(miri) { 1 } else { run.tier.n(1200, 40_000) };
    run.sub("trace-conformance", per * 25, |l, idx, rng| {
        let m = genm::decoder_matrix(rng, 5, 10);
        let k = (idx % 25) as usize;
        if k == 24 {
            trace_case::<IntMinSum>(l, "IntMinSum", &|| IntMinSum, &m, rng);
        } else {
            let name = ARITH_NAMES[k];
            let dflt = (idx / 25) % 3 == 2;
            with_arith!(name, A, { trace_case::<A>(l, name, &|| if dflt { <A as Default>::default() } else { <A>::new() }, &m, rng) }, { panic!() });
        }
    });
    let n3 = if cfg!(miri) { 2 } else { run.tier.n(30_000, 1_000_000) };
    run.sub("posterior-forests", n3, |l, idx, rng| {
        let star = idx % 20 >= 16;
        match idx % 4 {
            0 => posterior_case::<ldpc_toolbox::decoder::arithmetic::Phif64>(l, "Phif64", &ldpc_toolbox::decoder::arithmetic::Phif64::new, rng, star),
            1 => posterior_case::<ldpc_toolbox::decoder::arithmetic::Tanhf64>(l, "Tanhf64", &ldpc_toolbox::decoder::arithmetic::Tanhf64::new, rng, star),
            2 => posterior_case::<ldpc_toolbox::decoder::arithmetic::Phif32>(l, "Phif32", &ldpc_toolbox::decoder::arithmetic::Phif32::new, rng, star),
            _ => posterior_case::<ldpc_toolbox::decoder::arithmetic::Tanhf32>(l, "Tanhf32", &ldpc_toolbox::decoder::arithmetic::Tanhf32::new, rng, star),
        }
    });
    run.sub_seq("directed", 1, |l, _i, rng| {
        let m = genm::textbook();
        differential(l, &m, rng);
        let m = Mat::new(2, 3, vec![(0, 0), (0, 1), (1, 1), (1, 2)], "directed-2x3");
        differential(l, &m, rng);
        trace_case::<IntMinSum>(l, "IntMinSum", &|| IntMinSum, &m, rng);
    });
}
