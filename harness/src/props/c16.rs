//! C16 – pseudorandom constructions honour their configuration and are reproducible.

use crate::ctx::{Local, Run, guard, panic_class};
use crate::genm::from_sparse;
use crate::json::{J, jentries};
use crate::oracle::Graph;
use crate::rng::{Dig, Rng};
use ldpc_toolbox::mackay_neal::{Config as MnConfig, FillPolicy};
use ldpc_toolbox::peg::Config as PegConfig;
use ldpc_toolbox::sparse::SparseMatrix;

fn mn_json(c: &MnConfig) -> J {
    J::obj()
        .set("nrows", c.nrows)
        .set("ncols", c.ncols)
        .set("wr", c.wr)
        .set("wc", c.wc)
        .set("backtrack_cols", c.backtrack_cols)
        .set("backtrack_trials", c.backtrack_trials)
        .set("min_girth", c.min_girth.map(|g| g as u64))
        .set("girth_trials", c.girth_trials)
        .set("fill_policy", format!("{:?}", c.fill_policy))
}

fn gen_mn(rng: &mut Rng) -> MnConfig {
    let nrows = rng.range(2, 12);
    let ncols = rng.range(2, 30);
    let wc = rng.range(1, 4.min(nrows));
    // wr: from tight (just enough) to generous
    let need = (ncols * wc).div_ceil(nrows);
    let wr = match rng.below(4) {
        0 => need,
        1 => need + 1,
        2 => rng.range(1, 10),
        _ => need + rng.range(0, 3),
    }
    .max(1);
    let uniform = rng.coin();
    let min_girth = match rng.below(5) {
        0 | 1 => None,
        _ => Some(rng.range(4, 12)), // odd values included on purpose
    };
    let bt = rng.coin();
    MnConfig {
        nrows,
        ncols,
        wr,
        wc,
        backtrack_cols: if bt { rng.range(1, 4) } else { 0 },
        backtrack_trials: if bt { rng.range(1, 5) } else { rng.range(0, 1) },
        min_girth,
        girth_trials: if min_girth.is_some() { rng.range(0, 50) } else { 0 },
        fill_policy: if uniform { FillPolicy::Uniform } else { FillPolicy::Random },
    }
}

/// check an MN result against its configuration; returns true if consistent
fn check_mn_result(l: &mut Local, c: &MnConfig, seed: u64, h: &SparseMatrix) -> bool {
    let det = |what: String| mn_json(c).set("seed", seed).set("what", what).set("entries", jentries(&from_sparse(h)));
    if h.num_rows() != c.nrows || h.num_cols() != c.ncols {
        l.violation("MacKay-Neal: result has the wrong size", det(format!("{} x {}", h.num_rows(), h.num_cols())));
        return false;
    }
    let e = from_sparse(h);
    // row and column views must agree (a construction that leaves stale entries shows here)
    let mut cw = vec![0usize; c.ncols];
    let mut rw = vec![0usize; c.nrows];
    for &(r, cc) in &e {
        cw[cc] += 1;
        rw[r] += 1;
    }
    for col in 0..c.ncols {
        if cw[col] != c.wc || h.col_weight(col) != c.wc {
            l.violation(
                format!("MacKay-Neal: a column does not have exactly the requested weight ({}backtracking)", if c.backtrack_cols > 0 && c.backtrack_trials > 0 { "" } else { "no " }),
                det(format!("column {} has weight {} (wc = {})", col, cw[col], c.wc)),
            );
            return false;
        }
    }
    if let Some(r) = (0..c.nrows).find(|&r| rw[r] > c.wr) {
        l.violation("MacKay-Neal: a row exceeds the maximum row weight", det(format!("row {} has weight {} (wr = {})", r, rw[r], c.wr)));
        return false;
    }
    if let Some(g) = c.min_girth {
        let girth = Graph::new(c.nrows, c.ncols, &e).girth();
        if let Some(gg) = girth {
            if gg < g {
                l.violation(
                    format!("MacKay-Neal: girth below the requested minimum ({} minimum)", if g % 2 == 1 { "odd" } else { "even" }),
                    det(format!("girth {} < min_girth {}", gg, g)),
                );
                return false;
            }
        }
    } else if c.fill_policy == FillPolicy::Uniform {
        let mx = *rw.iter().max().unwrap();
        let mn = *rw.iter().min().unwrap();
        if mx - mn > 1 {
            l.violation("MacKay-Neal: uniform policy without girth constraint leaves row weights differing by more than one", det(format!("row weights {:?}", rw)));
            return false;
        }
    }
    true
}

fn mn_case(l: &mut Local, rng: &mut Rng) {
    let c = gen_mn(rng);
    let seed = rng.next_u64() >> rng.below(60);
    l.eval();
    let r1 = match guard(|| c.run(seed)) {
        Err(p) => {
            l.violation(format!("MacKay-Neal run panicked: {}", panic_class(&p)), mn_json(&c).set("seed", seed).set("panic", p));
            return;
        }
        Ok(r) => r,
    };
    let r2 = guard(|| c.run(seed));
    match (&r1, &r2) {
        (a, Ok(b)) if a == b => {}
        _ => {
            l.violation("MacKay-Neal: the same configuration and seed give different results", mn_json(&c).set("seed", seed));
            return;
        }
    }
    match &r1 {
        Err(e) => {
            l.count(&format!("mn_err:{:?}", e));
        }
        Ok(h) => {
            l.count("mn_ok");
            if check_mn_result(l, &c, seed, h) {
                // non-trivial: the girth constraint rejected a candidate (result differs from the unconstrained run) or backtracking was available
                let mut nt = false;
                if c.min_girth.is_some() {
                    let mut c2 = c.clone();
                    c2.min_girth = None;
                    if let Ok(Ok(h2)) = guard(|| c2.run(seed)) {
                        if &h2 != h {
                            nt = true;
                            l.count("mn_girth_constraint_changed_result");
                        }
                    } else {
                        nt = true;
                    }
                }
                if c.backtrack_cols > 0 && c.backtrack_trials > 0 {
                    let mut c2 = c.clone();
                    c2.backtrack_trials = 0;
                    if !matches!(guard(|| c2.run(seed)), Ok(Ok(_))) {
                        nt = true;
                        l.count("mn_succeeded_only_thanks_to_backtracking");
                    }
                }
                if nt {
                    let mut d = Dig::new();
                    d.s(&format!("{:?}", c)).u(seed);
                    l.nt(d.get());
                }
            }
            l.sample(|| mn_json(&c).set("seed", seed).set("construction", "mackay-neal").set("entries", jentries(&from_sparse(h))));
        }
    }
}

fn mn_seed_diversity(l: &mut Local, rng: &mut Rng) {
    // a configuration with a large choice space: different seeds must explore different choices
    let c = MnConfig {
        nrows: rng.range(6, 10),
        ncols: rng.range(12, 20),
        wr: 12,
        wc: rng.range(2, 3),
        backtrack_cols: 0,
        backtrack_trials: 0,
        min_girth: None,
        girth_trials: 0,
        fill_policy: if rng.coin() { FillPolicy::Uniform } else { FillPolicy::Random },
    };
    let base = rng.next_u64() >> 8;
    let mut distinct = std::collections::HashSet::new();
    for s in 0..64u64 {
        l.eval();
        if let Ok(Ok(h)) = guard(|| c.run(base + s)) {
            let mut d = Dig::new();
            d.entries(&from_sparse(&h));
            distinct.insert(d.get());
        }
    }
    l.max("distinct_results_over_64_seeds", distinct.len() as f64);
    if distinct.len() < 2 {
        l.violation("MacKay-Neal: 64 different seeds all give the same matrix", mn_json(&c).set("base_seed", base).set("distinct", distinct.len()));
    }
}

fn peg_case(l: &mut Local, rng: &mut Rng) {
    let large = rng.chance(0.02) && !cfg!(miri);
    let c = PegConfig {
        nrows: if large { rng.range(12, 40) } else { rng.range(1, 12) },
        ncols: if large { rng.range(30, 120) } else { rng.range(1, 30) },
        // weight 0 (no edge at all) is a valid request
        wc: if rng.chance(0.04) { 0 } else { rng.range(1, 5) },
    };
    let seed = rng.next_u64() >> rng.below(60);
    let cj = || J::obj().set("nrows", c.nrows).set("ncols", c.ncols).set("wc", c.wc).set("seed", seed);
    l.eval();
    let h = match guard(|| c.run(seed)) {
        Err(p) => {
            l.violation(format!("PEG run panicked: {}", panic_class(&p)), cj().set("panic", p));
            return;
        }
        Ok(Err(e)) => {
            l.violation("PEG run failed although rows are available", cj().set("error", format!("{}", e)));
            return;
        }
        Ok(Ok(h)) => h,
    };
    match guard(|| c.run(seed)) {
        Ok(Ok(h2)) if h2 == h => {}
        _ => {
            l.violation("PEG: the same configuration and seed give different results", cj());
            return;
        }
    }
    if h.num_rows() != c.nrows || h.num_cols() != c.ncols {
        l.violation("PEG: result has the wrong size", cj());
        return;
    }
    let want_w = c.wc.min(c.nrows);
    // replay the edges in column order and, within a column, in insertion order (= iter_col order)
    let mut placed: Vec<(usize, usize)> = Vec::new();
    let mut rw = vec![0usize; c.nrows];
    for col in 0..c.ncols {
        let rows: Vec<usize> = h.iter_col(col).cloned().collect();
        if rows.len() != want_w {
            l.violation(
                "PEG: a column does not have weight min(wc, rows)",
                cj().set("column", col).set("weight", rows.len()).set("entries", jentries(&from_sparse(&h))),
            );
            return;
        }
        for (k, &r) in rows.iter().enumerate() {
            let g = Graph::new(c.nrows, c.ncols, &placed);
            let dist = g.dist(g.col(col));
            let rd: Vec<Option<usize>> = (0..c.nrows).map(|rr| dist[g.row(rr)]).collect();
            let unreachable: Vec<usize> = (0..c.nrows).filter(|&rr| rd[rr].is_none()).collect();
            let cand: Vec<usize> = if !unreachable.is_empty() {
                unreachable
            } else {
                let mx = rd.iter().map(|d| d.unwrap()).max().unwrap();
                (0..c.nrows).filter(|&rr| rd[rr] == Some(mx)).collect()
            };
            let mindeg = cand.iter().map(|&rr| rw[rr]).min().unwrap();
            let allowed: Vec<usize> = cand.iter().cloned().filter(|&rr| rw[rr] == mindeg).collect();
            if !allowed.contains(&r) {
                let why = if !cand.contains(&r) {
                    if rd[r].is_some() && cand.iter().any(|&x| rd[x].is_none()) { "a reachable check was chosen although unreachable ones existed" } else { "the chosen check was not at maximal distance" }
                } else {
                    "the chosen check was not of least degree among the candidates"
                };
                l.violation(
                    format!("PEG: edge placement rule broken: {}", why),
                    cj().set("column", col)
                        .set("edge_index_in_column", k)
                        .set("chosen_row", r)
                        .set("allowed_rows", allowed.iter().map(|&x| x as u64).collect::<Vec<_>>())
                        .set("row_distances", format!("{:?}", rd))
                        .set("row_degrees", format!("{:?}", rw))
                        .set("entries", jentries(&from_sparse(&h))),
                );
                return;
            }
            placed.push((r, col));
            rw[r] += 1;
        }
    }
    if c.wc >= 2 && c.nrows >= 3 {
        let mut d = Dig::new();
        d.u(c.nrows as u64).u(c.ncols as u64).u(c.wc as u64).u(seed);
        l.nt(d.get());
    }
    l.count_n("peg_edges_replayed", placed.len() as u64);
    l.sample(|| cj().set("construction", "peg").set("entries", jentries(&from_sparse(&h))));
}

fn search_case(l: &mut Local, rng: &mut Rng, threads: usize, reps: usize) {
    // configurations where some seeds fail and some succeed
    let large = threads >= 2 && rng.chance(0.15);
    let c = match if large { 4 } else { rng.below(4) } {
        // large configurations: one construction takes milliseconds, so several seeds are in flight at the same time
        // when the first one finishes (a search that stops the others must not take their unfinished matrices)
        4 => {
            let nrows = rng.range(60, 200);
            MnConfig {
                nrows,
                ncols: 2 * nrows,
                wr: 7,
                wc: 3,
                backtrack_cols: 0,
                backtrack_trials: 0,
                min_girth: Some(6),
                girth_trials: rng.range(10, 40),
                fill_policy: FillPolicy::Uniform,
            }
        }
        // marginal configurations: a seed only succeeds by spending girth retries (or backtracks), and a fair share
        // of the seeds fails, so a search that lets one seed's spent budget leak into the next one returns nothing
        3 => {
            let nrows = rng.range(12, 20);
            let bt = rng.chance(0.3);
            MnConfig {
                nrows,
                ncols: nrows * 3 / 2,
                wr: 5,
                wc: 3,
                backtrack_cols: if bt { rng.range(1, 3) } else { 0 },
                backtrack_trials: if bt { rng.range(1, 4) } else { 0 },
                min_girth: Some(6),
                girth_trials: rng.range(15, 60),
                fill_policy: FillPolicy::Uniform,
            }
        }
        0 => MnConfig {
            nrows: 6,
            ncols: 12,
            wr: 6,
            wc: 3,
            backtrack_cols: 0,
            backtrack_trials: 0,
            min_girth: Some(6),
            girth_trials: rng.range(3, 12),
            fill_policy: FillPolicy::Uniform,
        },
        1 => {
            let nrows = rng.range(4, 8);
            let wc = 2;
            let ncols = rng.range(8, 16);
            MnConfig {
                nrows,
                ncols,
                wr: (ncols * wc).div_ceil(nrows),
                wc,
                backtrack_cols: 0,
                backtrack_trials: 0,
                min_girth: None,
                girth_trials: 0,
                fill_policy: FillPolicy::Random,
            }
        }
        _ => gen_mn(rng),
    };
    let start = rng.next_u64() >> 16;
    let tries = if large { rng.range(4, 16) as u64 } else { rng.range(1, 48) as u64 };
    l.count(&format!("search_config_class_{}", if c.nrows >= 60 { "large" } else if c.nrows >= 12 { "marginal" } else { "small" }));
    // sequential oracle: which seeds of the range succeed, and with what matrix
    let seq: Vec<Option<SparseMatrix>> = (start..start + tries).map(|s| c.run(s).ok()).collect();
    let ok_seeds: Vec<u64> = (0..tries).filter(|&i| seq[i as usize].is_some()).map(|i| start + i).collect();
    let pool = rayon::ThreadPoolBuilder::new().num_threads(threads).build().expect("rayon pool");
    for _ in 0..reps {
        l.eval();
        let res = guard(|| pool.install(|| c.search(start, tries)));
        let det = |what: String| mn_json(&c).set("start_seed", start).set("max_tries", tries).set("threads", threads).set("what", what).set("successful_seeds_in_range", ok_seeds.clone());
        match res {
            Err(p) => {
                l.violation(format!("seed search panicked: {}", panic_class(&p)), det(p.clone()));
                return;
            }
            Ok(None) => {
                if !ok_seeds.is_empty() {
                    l.violation("seed search returned nothing although a seed in range succeeds", det("None".into()));
                    return;
                }
                l.count("search_none");
            }
            Ok(Some((s, h))) => {
                if s < start || s >= start + tries {
                    l.violation("seed search returned a seed outside the requested range", det(format!("seed {}", s)));
                    return;
                }
                match &seq[(s - start) as usize] {
                    Some(hs) if *hs == h => {}
                    Some(_) => {
                        l.violation("seed search returned a matrix that is not the one its seed produces", det(format!("seed {}", s)));
                        return;
                    }
                    None => {
                        l.violation("seed search returned a seed that fails when run on its own", det(format!("seed {}", s)));
                        return;
                    }
                }
                check_mn_result(l, &c, s, &h);
                l.seen(&format!("search_seed_offsets_returned_t{}", threads), format!("{}", s - start));
                l.count("search_some");
                if ok_seeds.len() >= 2 {
                    let mut d = Dig::new();
                    d.s(&format!("{:?}", c)).u(start).u(tries).u(threads as u64);
                    l.nt(d.get());
                }
            }
        }
    }
}

/// Many searches over ranges in which EVERY seed succeeds, on 16 threads: several constructions finish within
/// microseconds of each other, so a result assembled from two of them (seed of one, matrix of the other) shows.
fn race_case(l: &mut Local, rng: &mut Rng, searches: usize) {
    let nrows = rng.range(8, 16);
    let c = MnConfig {
        nrows,
        ncols: 2 * nrows,
        wr: 8,
        wc: 3,
        backtrack_cols: 0,
        backtrack_trials: 0,
        min_girth: None,
        girth_trials: 0,
        fill_policy: if rng.coin() { FillPolicy::Random } else { FillPolicy::Uniform },
    };
    let pool = rayon::ThreadPoolBuilder::new().num_threads(16).build().expect("rayon pool");
    let base = rng.next_u64() >> 20;
    for it in 0..searches as u64 {
        let start = base + it * 1000;
        l.eval();
        let res = guard(|| pool.install(|| c.search(start, 64)));
        let det = |what: String| mn_json(&c).set("start_seed", start).set("max_tries", 64).set("threads", 16).set("what", what);
        match res {
            Err(p) => {
                l.violation(format!("seed search panicked: {}", panic_class(&p)), det(p.clone()));
                return;
            }
            Ok(None) => {
                if (start..start + 64).any(|s| c.run(s).is_ok()) {
                    l.violation("seed search returned nothing although a seed in range succeeds", det("None".into()));
                    return;
                }
            }
            Ok(Some((s, h))) => {
                if s < start || s >= start + 64 {
                    l.violation("seed search returned a seed outside the requested range", det(format!("seed {}", s)));
                    return;
                }
                match c.run(s) {
                    Ok(hs) if hs == h => {}
                    Ok(_) => {
                        l.violation("seed search returned a matrix that is not the one its seed produces", det(format!("seed {} (search {} of this case)", s, it)));
                        return;
                    }
                    Err(_) => {
                        l.violation("seed search returned a seed that fails when run on its own", det(format!("seed {}", s)));
                        return;
                    }
                }
                l.seen("search_seed_offsets_returned_races", format!("{}", s - start));
            }
        }
    }
    l.count_n("searches_over_all_succeeding_ranges", searches as u64);
    let mut d = Dig::new();
    d.s("race").u(base).u(nrows as u64);
    l.nt(d.get());
}

pub fn run(run: &mut Run) {
    run.rule = "MacKay-Neal: rows 2..12, cols 2..30, wc 1..4, wr from tight to generous, backtracking 0..4 x 0..5, min girth None or 4..12 (odd values included), girth trials 0..50, both policies, random seeds; on Ok: size, every column weight = wc (from the row view AND the column view), row weights <= wr, own-oracle girth >= min_girth, uniform/no-girth => row weights differ by <= 1; run(seed) twice equal; 64 seeds of a large-choice configuration give >= 2 distinct matrices. PEG: rows 1..12, cols 1..30 (2 % of the cases up to 40 x 120), wc 1..5 and 0: column weight = min(wc, rows) and REPLAY of every edge in insertion order against an own BFS on the graph at that time (unreachable, else maximal distance; least degree among those). Search (small configurations, marginal 12..20-row girth-6 configurations whose successful seeds spend retries, and 60..200-row configurations whose constructions overlap in time): result compared with a sequential re-run of the whole seed range (tries <= 48) inside rayon pools of 1/2/4/16 threads, repeated; 12 000 (quick) searches over ranges in which every seed succeeds, on 16 threads (returned matrix = run(returned seed)); non-trivial = MN result changed by the girth constraint or succeeding only thanks to backtracking / PEG with wc >= 2 / search range with >= 2 successful seeds".into();
    run.assumptions = vec!["PEG insertion order within a column is read from the column iterator (push order)".into()];
    let miri = cfg!(miri);
    let n_mn = if miri { 6 } else { run.tier.n(500_000, 15_000_000) };
    run.sub("mackay-neal", n_mn, |l, _i, rng| mn_case(l, rng));
    let n_div = if miri { 1 } else { run.tier.n(400, 10_000) };
    run.sub("mackay-neal-seed-diversity", n_div, |l, _i, rng| mn_seed_diversity(l, rng));
    let n_peg = if miri { 4 } else { run.tier.n(100_000, 3_000_000) };
    run.sub("peg-replay", n_peg, |l, _i, rng| peg_case(l, rng));
    // the search uses its own thread pools: run these cases sequentially
    let n_s = if miri { 1 } else { run.tier.n(400, 6000) };
    let reps = if miri { 1 } else { run.tier.n(10, 20) as usize };
    run.sub_seq("seed-search", n_s, move |l, idx, rng| {
        let threads = if cfg!(miri) { 2 } else { [1usize, 2, 4, 16][(idx % 4) as usize] };
        search_case(l, rng, threads, reps);
    });
    if !miri {
        let per = run.tier.n(4000, 40_000) as usize;
        run.sub_seq("seed-search-races", run.tier.n(3, 12), move |l, _i, rng| race_case(l, rng, per));
    }
    run.sub_seq("directed", 1, |l, _i, _rng| {
        // documented example configuration
        let c = MnConfig { nrows: 4, ncols: 8, wr: 4, wc: 2, backtrack_cols: 0, backtrack_trials: 0, min_girth: None, girth_trials: 0, fill_policy: FillPolicy::Uniform };
        l.eval();
        if let Ok(h) = c.run(42) {
            check_mn_result(l, &c, 42, &h);
        } else {
            l.violation("MacKay-Neal: the documented example configuration fails", mn_json(&c));
        }
    });
}
