//! C08 – alist text and matrices round-trip losslessly and the parser is total.

use crate::ctx::{Run, guard, panic_class};
use crate::genm::{Mat, from_sparse};
use crate::json::J;
use crate::rng::{Dig, Rng};
use ldpc_toolbox::sparse::SparseMatrix;

/// Strict alist grammar checker. Returns the parsed (rows, cols, entries)
/// or a description of the format violation.
pub fn strict_parse(text: &str, padded: bool) -> Result<(usize, usize, Vec<(usize, usize)>), String> {
    if !text.ends_with('\n') {
        return Err("text does not end with a newline".into());
    }
    let lines: Vec<&str> = text[..text.len() - 1].split('\n').collect();
    let nums = |l: &str| -> Result<Vec<usize>, String> {
        if l != l.trim() || l.contains("  ") || l.contains('\t') {
            return Err(format!("line {:?} has stray whitespace", l));
        }
        if l.is_empty() {
            return Ok(vec![]);
        }
        l.split(' ')
            .map(|t| {
                if t.len() > 1 && t.starts_with('0') {
                    return Err(format!("token {:?} has leading zero", t));
                }
                t.parse::<usize>().map_err(|_| format!("token {:?} is not a number", t))
            })
            .collect()
    };
    if lines.len() < 4 {
        return Err("fewer than 4 lines".into());
    }
    let l0 = nums(lines[0])?;
    if l0.len() != 2 {
        return Err("line 1 must be 'ncols nrows'".into());
    }
    let (ncols, nrows) = (l0[0], l0[1]);
    if lines.len() != 4 + ncols + nrows {
        return Err(format!("expected {} lines, found {}", 4 + ncols + nrows, lines.len()));
    }
    let l1 = nums(lines[1])?;
    if l1.len() != 2 {
        return Err("line 2 must be 'max_col_weight max_row_weight'".into());
    }
    let cw = nums(lines[2])?;
    let rw = nums(lines[3])?;
    if cw.len() != ncols || rw.len() != nrows {
        return Err("weight lines have wrong length".into());
    }
    if cw.iter().cloned().max().unwrap_or(0) != l1[0] || rw.iter().cloned().max().unwrap_or(0) != l1[1] {
        return Err(format!("maximum weights {:?} do not match weight lines", l1));
    }
    let mut by_col = Vec::new();
    let mut by_row = Vec::new();
    for (k, l) in lines[4..].iter().enumerate() {
        let is_col = k < ncols;
        let (w, maxw, lim) = if is_col { (cw[k], l1[0], nrows) } else { (rw[k - ncols], l1[1], ncols) };
        let v = nums(l)?;
        let real: Vec<usize> = v.iter().cloned().take_while(|&x| x != 0).collect();
        let pad = &v[real.len()..];
        if pad.iter().any(|&x| x != 0) {
            return Err(format!("line {}: non-zero index after padding", k + 5));
        }
        if real.len() != w {
            return Err(format!("line {}: {} indices but weight {}", k + 5, real.len(), w));
        }
        if real.windows(2).any(|p| p[0] >= p[1]) {
            return Err(format!("line {}: indices not strictly increasing: {:?}", k + 5, real));
        }
        if real.iter().any(|&x| x > lim) {
            return Err(format!("line {}: index out of range", k + 5));
        }
        if padded {
            // padded to the maximum weight (at least one token when the maximum is 0: "0")
            let want = maxw.max(1);
            if v.len() != want && !(maxw == 0 && v.len() == 1) {
                return Err(format!("line {}: {} tokens, padded form needs {}", k + 5, v.len(), want));
            }
            if w == 0 && v.is_empty() {
                return Err(format!("line {}: empty line in padded form", k + 5));
            }
        } else if !pad.is_empty() {
            return Err(format!("line {}: padding zeros in unpadded form", k + 5));
        }
        if is_col {
            by_col.extend(real.iter().map(|&r| (r - 1, k)));
        } else {
            by_row.extend(real.iter().map(|&c| (k - ncols, c - 1)));
        }
    }
    by_col.sort_unstable();
    by_row.sort_unstable();
    if by_col != by_row {
        return Err("column section and row section describe different matrices".into());
    }
    Ok((nrows, ncols, by_col))
}

/// fmt::Write sink that refuses to grow beyond `cap` bytes
struct Limited {
    s: String,
    cap: usize,
}
impl std::fmt::Write for Limited {
    fn write_str(&mut self, t: &str) -> std::fmt::Result {
        if self.s.len() + t.len() > self.cap {
            return Err(std::fmt::Error);
        }
        self.s.push_str(t);
        Ok(())
    }
}

fn gen_matrix(rng: &mut Rng, idx: u64) -> Mat {
    // index widths: one dimension beyond 2^16 (wide and tall), a few hundred ones, some at the boundaries
    if idx % 32768 == 32767 && !cfg!(miri) {
        let long = 65_537 + rng.below(5000);
        let short = rng.range(1, 3);
        let wide = rng.coin();
        let (rows, cols) = if wide { (short, long) } else { (long, short) };
        let mut e = Vec::new();
        for _ in 0..300 {
            e.push((rng.below(rows), rng.below(cols)));
        }
        for x in [0usize, 65_535, 65_536, long - 1] {
            e.push(if wide { (rng.below(rows), x) } else { (x, rng.below(cols)) });
        }
        return Mat::new(rows, cols, e, if wide { "wide-beyond-2^16" } else { "tall-beyond-2^16" });
    }
    let (maxr, maxc) = if idx % 8 == 7 { (30, 40) } else { (8, 10) };
    let rows = rng.range(1, maxr);
    let cols = rng.range(1, maxc);
    let class = rng.below(6);
    let mut e = Vec::new();
    let fam = match class {
        0 => "all-zero",
        1 => {
            for r in 0..rows {
                for c in 0..cols {
                    if rng.chance(0.08) {
                        e.push((r, c));
                    }
                }
            }
            "sparse"
        }
        2 => {
            for r in 0..rows {
                for c in 0..cols {
                    if rng.coin() {
                        e.push((r, c));
                    }
                }
            }
            "half"
        }
        3 => {
            for r in 0..rows {
                for c in 0..cols {
                    e.push((r, c));
                }
            }
            "full"
        }
        4 => {
            // forced empty rows and columns
            let er = rng.below(rows);
            let ec = rng.below(cols);
            for r in 0..rows {
                for c in 0..cols {
                    if r != er && c != ec && rng.chance(0.4) {
                        e.push((r, c));
                    }
                }
            }
            "empty-row-and-col"
        }
        _ => {
            // irregular: one heavy column/row
            let hc = rng.below(cols);
            for r in 0..rows {
                e.push((r, hc));
            }
            if rng.coin() {
                let hr = rng.below(rows);
                for c in 0..cols {
                    e.push((hr, c));
                }
            }
            "irregular"
        }
    };
    Mat::new(rows, cols, e, fam)
}

/// Mutate a valid alist text into a hostile one
fn mutate(rng: &mut Rng, text: &str) -> (String, &'static str) {
    let mut lines: Vec<Vec<String>> = text
        .trim_end_matches('\n')
        .split('\n')
        .map(|l| l.split_whitespace().map(|s| s.to_string()).collect())
        .collect();
    let hostile_tokens = [
        "0", "-1", "18446744073709551616", "18446744073709551615", "4294967296", "x", "1.5", "+3", "1e3", "",
        // zero spelled in other ways (numerically the padding value, textually not "0"), and a signed one
        "00", "000", "+0", "-0", "+1", "01",
        "９", "0x10", "2000", "1099511627776", "1152921504606846976", "9223372036854775808", "9223372036854775807",
        // long tokens with multi-byte characters at every offset around typical truncation lengths
        "123456789012345é6789", "12345678901234€56789", "1234567é", "123é5678", "éééééééééééééééééééé", "1234567890123456789012345678901€",
        "abcdefghijklmnopqrstuvwxyzabcdefghijklmnopqrstuvwxyzabcdefghijklmn\u{1F600}", "12345678901234567890123456789012345678901234567890123456789012345",
    ];
    let kind = rng.below(13);
    let name;
    let pick_line = |rng: &mut Rng, lines: &Vec<Vec<String>>| rng.below(lines.len().max(1));
    match kind {
        0 => {
            name = "token-deleted";
            let i = pick_line(rng, &lines);
            if !lines[i].is_empty() {
                let j = rng.below(lines[i].len());
                lines[i].remove(j);
            }
        }
        1 => {
            name = "token-duplicated";
            let i = pick_line(rng, &lines);
            if !lines[i].is_empty() {
                let j = rng.below(lines[i].len());
                let t = lines[i][j].clone();
                lines[i].insert(j, t);
            }
        }
        2 => {
            name = "token-replaced-hostile";
            let i = pick_line(rng, &lines);
            if !lines[i].is_empty() {
                let j = rng.below(lines[i].len());
                lines[i][j] = if rng.chance(0.3) { long_multibyte_token(rng) } else { rng.pick(&hostile_tokens).to_string() };
            }
        }
        3 => {
            name = "index-out-of-range";
            // replace an index in the column/row section by nrows+1.. or large
            if lines.len() > 4 {
                let i = rng.range(4, lines.len() - 1);
                let nrows: usize = lines[0].get(1).and_then(|s| s.parse().ok()).unwrap_or(1);
                let ncols: usize = lines[0].first().and_then(|s| s.parse().ok()).unwrap_or(1);
                let v = *rng.pick(&[nrows + 1, nrows + 2, ncols + 1, nrows.max(ncols) + 1, 1000, usize::MAX]);
                if lines[i].is_empty() {
                    lines[i].push(v.to_string());
                } else {
                    let j = rng.below(lines[i].len());
                    lines[i][j] = v.to_string();
                }
            }
        }
        4 => {
            name = "line-deleted";
            let i = pick_line(rng, &lines);
            lines.remove(i);
        }
        5 => {
            name = "line-duplicated";
            let i = pick_line(rng, &lines);
            let l = lines[i].clone();
            lines.insert(i, l);
        }
        6 => {
            name = "truncated";
            let keep = rng.below(lines.len() + 1);
            lines.truncate(keep);
        }
        7 => {
            name = "header-changed";
            let r = *rng.pick(&["0", "1", "2", "7", "50", "2000"]);
            let j = rng.below(2);
            if lines[0].len() > j {
                lines[0][j] = r.to_string();
            }
        }
        8 => {
            name = "crlf";
            let t: String = lines.iter().map(|l| l.join(" ") + "\r\n").collect();
            return (t, name);
        }
        9 => {
            name = "tabs-and-spaces";
            let t: String = lines.iter().map(|l| format!(" \t{} \t\n", l.join("\t  "))).collect();
            return (t, name);
        }
        10 => {
            name = "trailing-blank-lines";
            let t: String = lines.iter().map(|l| l.join(" ") + "\n").collect::<String>() + "\n\n \n";
            return (t, name);
        }
        11 => {
            name = "no-final-newline";
            let t: String = lines.iter().map(|l| l.join(" ")).collect::<Vec<_>>().join("\n");
            return (t, name);
        }
        _ => {
            name = "several-mutations";
            for _ in 0..rng.range(2, 5) {
                let i = pick_line(rng, &lines);
                if !lines[i].is_empty() {
                    let j = rng.below(lines[i].len());
                    lines[i][j] = rng.pick(&hostile_tokens).to_string();
                }
            }
        }
    }
    let t: String = lines.iter().map(|l| l.join(" ") + "\n").collect();
    (t, name)
}

/// a token of random length (1..80 bytes) made of digits with a multi-byte character at a random offset
fn long_multibyte_token(rng: &mut Rng) -> String {
    let len = rng.range(1, 70);
    let at = rng.below(len);
    let mb = *rng.pick(&["é", "€", "\u{1F600}", "ß", "９"]);
    let mut t = String::new();
    for i in 0..len {
        if i == at {
            t.push_str(mb);
        } else {
            t.push((b'0' + (i % 10) as u8) as char);
        }
    }
    t
}

fn soup(rng: &mut Rng) -> String {
    let toks = [
        "0", "1", "2", "3", "5", "9", "10", "17", "-1", "a", "\n", "\n", "\n", " ", "\t", "\r\n", "1999", "2000",
        "18446744073709551615", "99999999999999999999", "é", "\u{0}", "",
    ];
    let n = rng.range(0, 40);
    // keep declared dimensions moderate: force a sane header most of the time
    let mut s = String::new();
    if rng.chance(0.8) {
        s.push_str(&format!("{} {}\n", rng.range(0, 12), rng.range(0, 12)));
    }
    for _ in 0..n {
        let t: &&str = rng.pick(&toks[..]);
        s.push_str(t);
        if rng.chance(0.6) {
            s.push(' ');
        }
    }
    s
}

/// "moderate declared dimensions": header numbers <= 2000 (a header of 1e9 legitimately allocates)
fn moderate(text: &str) -> bool {
    let first = text.split('\n').next().unwrap_or("");
    let mut it = first.split_whitespace();
    for _ in 0..2 {
        if let Some(t) = it.next() {
            if let Ok(v) = t.parse::<u128>() {
                if v > 2000 {
                    return false;
                }
            }
        }
    }
    true
}

fn check_parser_total(l: &mut crate::ctx::Local, text: &str, class: &str) {
    if !moderate(text) {
        l.count("skipped_immoderate_header");
        return;
    }
    l.eval();
    let t = text.to_string();
    match guard(|| SparseMatrix::from_alist(&t)) {
        Err(p) => l.violation(
            format!("from_alist panicked ({}): {}", class, panic_class(&p)),
            J::obj().set("text", text).set("class", class).set("panic", p),
        ),
        Ok(Ok(h)) => {
            l.count("parser_ok");
            // header parsed and column section reached: non-trivial
            let mut d = Dig::new();
            d.s(text);
            l.nt(d.get());
            // sanity: the result is internally consistent (row/col views agree)
            let e = from_sparse(&h);
            let mut byc: Vec<(usize, usize)> = Vec::new();
            for c in 0..h.num_cols() {
                for &r in h.iter_col(c) {
                    byc.push((r, c));
                }
            }
            byc.sort_unstable();
            if byc != e {
                l.violation(
                    "from_alist returned a matrix whose row and column views disagree",
                    J::obj().set("text", text),
                );
            }
        }
        Ok(Err(msg)) => {
            l.count("parser_err");
            l.seen("parser_error_messages", msg);
            // reaching the column section = header parsed
            if text.split('\n').count() > 4 {
                let mut d = Dig::new();
                d.s(text);
                l.nt(d.get());
            }
        }
    }
}

pub fn run(run: &mut Run) {
    run.rule = "matrices 1x1..30x40 (every 32768th case 1..3 x 65537..70536 or its transpose: index widths) in six density classes (all-zero, sparse, half, full, forced empty row+column, irregular) written in both alist forms, checked against a strict grammar and re-parsed; parser inputs: writer output, 13 kinds of mutated valid alists (incl. long tokens with multi-byte characters at every offset), token soups, declared dimensions <= 2000; non-trivial = string whose header parsed (reaches the column section) / matrix with a non-empty entry set or an empty line; distinct by string digest".into();
    run.assumptions = vec![
        "declared dimensions above 2000 are skipped (a huge header legitimately allocates)".into(),
        "the strict grammar (header, max-weight line, weight lines, sorted 1-based lists, zero padding to the maximum in padded form) is the harness author's reading of MacKay's alist format".into(),
    ];
    let miri = cfg!(miri);
    // texts are below 1 MB and declared dimensions at most 2000: nothing a parser legitimately does with them needs
    // gigabytes. The cap makes an absurd allocation (a count taken from the text used as a capacity) fail in the
    // same way alone and under load; the supervising process turns the resulting abort into a verdict.
    if matches!(run.leg.as_deref(), None | Some("unchecked")) && crate::abort::limit_address_space(12) {
        run.assumptions.push("the workload process runs with a 12 GiB address-space limit (RLIMIT_AS)".into());
    }
    let n_rt = if miri { 30 } else { run.tier.n(600_000, 20_000_000) };
    run.sub("roundtrip", n_rt, |l, idx, rng| {
        let m = gen_matrix(rng, idx);
        let h = if rng.coin() { m.to_sparse() } else { m.to_sparse_shuffled(rng) };
        let mut d = Dig::new();
        d.u(m.rows as u64).u(m.cols as u64).entries(&m.e);
        l.count(m.family);
        for padded in [true, false] {
            l.eval();
            let form = if padded { "alist()" } else { "alist_no_padding()" };
            // first through a size-limited writer: a writer that does not terminate (e.g. an
            // unbounded padding loop in a build without overflow checks) runs into the limit
            // and is observed as such instead of hanging the monitor
            let bound = 64 + 24 * (m.rows + m.cols + 2) + 12 * (m.e.len() * 2 + (m.rows + m.cols) * (m.rows.max(m.cols) + 1));
            let mut lim = Limited { s: String::new(), cap: bound };
            let lw = guard(|| if padded { h.write_alist(&mut lim) } else { h.write_alist_no_padding(&mut lim) });
            if let Ok(Err(_)) = lw {
                l.violation(
                    format!("{} writer does not terminate within a generous size bound on a {} matrix", form, m.family),
                    m.json().set("form", form).set("bytes_written_before_cut", lim.s.len()).set("bound", bound).set("head", lim.s.chars().take(200).collect::<String>()),
                );
                continue;
            }
            let text = match guard(|| if padded { h.alist() } else { h.alist_no_padding() }) {
                Ok(t) => t,
                Err(p) => {
                    l.violation(
                        format!("{} panicked on a {} matrix: {}", form, m.family, panic_class(&p)),
                        m.json().set("form", form).set("panic", p),
                    );
                    continue;
                }
            };
            // write_alist must agree with alist()
            let mut s2 = String::new();
            let w = guard(|| if padded { h.write_alist(&mut s2) } else { h.write_alist_no_padding(&mut s2) });
            if !matches!(w, Ok(Ok(()))) || s2 != text {
                l.violation(format!("write_alist differs from {}", form), m.json().set("text", text.clone()).set("written", s2));
            }
            match strict_parse(&text, padded) {
                Err(why) => {
                    let class: String = why.split(':').next_back().unwrap_or(&why).trim().chars().take(50).collect();
                    l.violation(
                        format!("{} output violates the alist grammar: {}", form, class),
                        m.json().set("text", text.clone()).set("why", why),
                    );
                }
                Ok((r, c, e)) => {
                    if r != m.rows || c != m.cols || e != m.e {
                        l.violation(
                            format!("{} text describes a different matrix", form),
                            m.json().set("text", text.clone()),
                        );
                    }
                }
            }
            match guard(|| SparseMatrix::from_alist(&text)) {
                Err(p) => l.violation(
                    format!("from_alist panicked on writer output: {}", panic_class(&p)),
                    m.json().set("text", text.clone()).set("panic", p),
                ),
                Ok(Err(msg)) => l.violation(
                    format!("from_alist rejected {} output", form),
                    m.json().set("text", text.clone()).set("error", msg),
                ),
                Ok(Ok(h2)) => {
                    if h2.num_rows() != m.rows || h2.num_cols() != m.cols || from_sparse(&h2) != m.e {
                        l.violation(
                            format!("round trip through {} changed the matrix", form),
                            m.json().set("text", text.clone()).set("got_entries", crate::json::jentries(&from_sparse(&h2))),
                        );
                    }
                }
            }
            if padded {
                l.sample(|| m.json().set("alist", text.clone()));
            }
        }
        if !m.e.is_empty() || m.family == "all-zero" {
            l.nt(d.get());
        }
    });

    let n_mut = if miri { 120 } else { run.tier.n(2_000_000, 80_000_000) };
    run.sub("parser-mutated", n_mut, |l, idx, rng| {
        let m = gen_matrix(rng, idx % 4); // small ones
        let h = m.to_sparse();
        let padded = rng.coin();
        let base = match guard(|| if padded { h.alist() } else { h.alist_no_padding() }) {
            Ok(t) => t,
            Err(p) => {
                l.violation(
                    format!("{} panicked on a {} matrix: {}", if padded { "alist()" } else { "alist_no_padding()" }, m.family, panic_class(&p)),
                    m.json().set("panic", p),
                );
                return;
            }
        };
        let (text, kind) = mutate(rng, &base);
        l.count(kind);
        check_parser_total(l, &text, kind);
        // history on one thread: whatever the parser made of the mutated text (accepted, rejected half-way through a
        // line, ...), the next parse of the valid text on the same thread must still give the matrix back
        if idx % 2 == 0 {
            l.eval();
            match guard(|| SparseMatrix::from_alist(&base)) {
                Ok(Ok(h2)) => {
                    if h2.num_rows() != m.rows || h2.num_cols() != m.cols || { let mut a = m.e.clone(); a.sort_unstable(); a.dedup(); crate::genm::from_sparse(&h2) != a } {
                        l.violation(
                            format!("a valid alist parsed after a {} text on the same thread does not give the matrix back (state kept between parser calls)", if matches!(guard(|| SparseMatrix::from_alist(&text).is_ok()), Ok(true)) { "accepted" } else { "rejected" }),
                            m.json().set("previous_text_kind", kind).set("previous_text", text.chars().take(400).collect::<String>()).set("got_entries", crate::json::jentries(&crate::genm::from_sparse(&h2))),
                        );
                    } else {
                        l.count("valid_parse_after_mutated_parse");
                    }
                }
                Ok(Err(e)) => l.violation("a valid alist is rejected when parsed after another text on the same thread", m.json().set("error", format!("{}", e)).set("previous_text_kind", kind)),
                Err(p) => l.violation(format!("from_alist panicked on a valid alist after another text: {}", panic_class(&p)), m.json().set("previous_text_kind", kind)),
            }
        }
        if idx < 3 {
            l.sample(|| J::obj().set("kind", kind).set("text", text.clone()));
        }
    });
    let n_soup = if miri { 80 } else { run.tier.n(1_000_000, 30_000_000) };
    run.sub("parser-soup", n_soup, |l, _idx, rng| {
        let text = soup(rng);
        check_parser_total(l, &text, "token-soup");
    });
    // Directed corner cases, independent of the seed
    run.sub_seq("parser-directed", 1, |l, _idx, _rng| {
        let cases = [
            "", "\n", "0 0\n", "0 0", "1 1\n1 1\n1\n1\n1\n1\n", "1 1\n0 0\n0\n0\n0\n0\n", "1 1\n0 0\n0\n0\n\n\n",
            "3 2\n1 1\n1 1 1\n1 1\n5\n1\n2\n", "3 2\n1 1\n1 1 1\n1 1\n3\n1\n2\n", "2 2\n1 1\n1 1\n1 1\n1\n2\n1\n2",
            "2 2\n2 2\n", "2\n", "a b\n", "2 b\n", "-2 2\n", "2 2 2\n1 1\n1 1\n1 1\n1\n2\n", "1 2000\n1 1\n1\n1\n2000\n",
            "1 2000\n1 1\n1\n1\n2001\n", "2 2\n\n\n\n1 2 1 2 0 0\n2\n",
        ];
        for c in cases {
            check_parser_total(l, c, "directed");
        }
        // every all-zero shape up to 5x5 in both forms
        for r in 1..=5 {
            for c in 1..=5 {
                let h = SparseMatrix::new(r, c);
                for padded in [true, false] {
                    l.eval();
                    match guard(|| if padded { h.alist() } else { h.alist_no_padding() }) {
                        Err(p) => l.violation(
                            format!("{} panicked on a all-zero matrix: {}", if padded { "alist()" } else { "alist_no_padding()" }, panic_class(&p)),
                            J::obj().set("rows", r).set("cols", c).set("panic", p),
                        ),
                        Ok(t) => {
                            if let Err(why) = strict_parse(&t, padded) {
                                l.violation(
                                    format!("{} output violates the alist grammar: all-zero", if padded { "alist()" } else { "alist_no_padding()" }),
                                    J::obj().set("rows", r).set("cols", c).set("text", t).set("why", why),
                                );
                            }
                        }
                    }
                }
            }
        }
    });
}
