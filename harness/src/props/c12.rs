//! C12 – the BER chain hands the decoder correctly ordered, correctly scaled LLRs.
//!
//! Two taps at public boundaries: a decoder tap (DecoderFactory) and a
//! modulation tap (`TapMod<M>` implementing the public Modulation trait by
//! delegation). Every frame of every worker is checked online on the worker
//! thread itself (thread-local hand-over between the taps), noise samples are
//! accumulated for statistical tests.

use crate::ctx::{Local, Run, guard, panic_class};
use crate::genm::Mat;
use crate::json::J;
use crate::oracle::complete_codeword;
use crate::rng::{Dig, Rng};
use ldpc_toolbox::decoder::factory::DecoderFactory;
use ldpc_toolbox::decoder::{DecoderOutput, LdpcDecoder};
use ldpc_toolbox::gf2::GF2;
use ldpc_toolbox::simulation::ber::BerTest;
use ldpc_toolbox::simulation::factory::{Ber, BerTestBuilder, Modulation as ModEnum};
use ldpc_toolbox::simulation::modulation::{Bpsk, Demodulator, Modulation, Modulator, Psk8};
use ldpc_toolbox::sparse::SparseMatrix;
use ndarray::{ArrayBase, Data, Ix1};
use num_complex::Complex;
use num_traits::One;
use std::cell::RefCell;
use std::collections::HashMap;
use std::marker::PhantomData;
use std::sync::atomic::{AtomicBool, AtomicU64, Ordering};
use std::sync::{Arc, Mutex, RwLock};

const Z: f64 = 6.5;

pub trait Sample: Copy {
    fn parts(self) -> (f64, f64);
    const COMPLEX: bool;
}
impl Sample for f64 {
    fn parts(self) -> (f64, f64) {
        (self, 0.0)
    }
    const COMPLEX: bool = false;
}
impl Sample for Complex<f64> {
    fn parts(self) -> (f64, f64) {
        (self.re, self.im)
    }
    const COMPLEX: bool = true;
}

#[derive(Default, Clone)]
struct Acc {
    complex: bool,
    n: u64,
    s1: f64,
    s2: f64,
    s4: f64,
    lag_n: u64,
    lag: f64,
    q1: f64,
    q2: f64,
    q4: f64,
    iq: f64,
    pos_n: Vec<u64>,
    pos_s1: Vec<f64>,
    pos_s2: Vec<f64>,
    pos_q1: Vec<f64>,
    pos_q2: Vec<f64>,
}

pub struct Scen {
    h: Mat,
    pattern: Option<Vec<bool>>,
    il: Option<isize>,
    psk8: bool,
    n_cw: usize,
    n: usize,
    k: usize,
    modtap: bool,
    high_snr: bool,
    period: u64,
    flip: usize,
    frames: AtomicU64,
    viol: Mutex<Vec<(String, J)>>,
    acc: Mutex<HashMap<u64, Acc>>,
    sigmas: Mutex<Vec<f64>>,
    all_unique: AtomicBool,
    llr2: Mutex<(u64, f64)>,
    /// digest of the noise of the first frame seen on each worker thread (independence between workers)
    first_noise: Mutex<HashMap<std::thread::ThreadId, u64>>,
    desc: String,
}

static SCEN: RwLock<Option<Arc<Scen>>> = RwLock::new(None);

thread_local! {
    static LAST_MOD: RefCell<Option<(Vec<u8>, Vec<(f64, f64)>)>> = const { RefCell::new(None) };
    static LAST_DEMOD: RefCell<Option<(f64, Vec<(f64, f64)>, Vec<f64>)>> = const { RefCell::new(None) };
}

fn scen() -> Option<Arc<Scen>> {
    SCEN.read().unwrap().clone()
}

// ---------------------------------------------------------------- modulation tap

pub struct TapMod<M>(PhantomData<M>);
pub struct TapModulator<M: Modulation> {
    inner: M::Modulator,
}
pub struct TapDemodulator<M: Modulation> {
    inner: M::Demodulator,
    sigma: f64,
}
impl<M: Modulation> Default for TapModulator<M> {
    fn default() -> Self {
        TapModulator { inner: M::Modulator::default() }
    }
}
impl<M: Modulation> Clone for TapModulator<M> {
    fn clone(&self) -> Self {
        TapModulator { inner: self.inner.clone() }
    }
}
impl<M: Modulation> Modulator for TapModulator<M>
where
    M::T: Sample,
{
    type T = M::T;
    fn modulate<S>(&self, codeword: &ArrayBase<S, Ix1>) -> Vec<M::T>
    where
        S: Data<Elem = GF2>,
    {
        let out = self.inner.modulate(codeword);
        let bits: Vec<u8> = codeword.iter().map(|b| b.is_one() as u8).collect();
        let sy: Vec<(f64, f64)> = out.iter().map(|s| s.parts()).collect();
        LAST_MOD.with(|c| *c.borrow_mut() = Some((bits, sy)));
        out
    }
}
impl<M: Modulation> Demodulator for TapDemodulator<M>
where
    M::T: Sample,
{
    type T = M::T;
    fn from_noise_sigma(noise_sigma: f64) -> Self {
        if let Some(s) = scen() {
            s.sigmas.lock().unwrap().push(noise_sigma);
        }
        TapDemodulator {
            inner: M::Demodulator::from_noise_sigma(noise_sigma),
            sigma: noise_sigma,
        }
    }
    fn demodulate(&self, symbols: &[M::T]) -> Vec<f64> {
        let out = self.inner.demodulate(symbols);
        let rx: Vec<(f64, f64)> = symbols.iter().map(|s| s.parts()).collect();
        LAST_DEMOD.with(|c| *c.borrow_mut() = Some((self.sigma, rx, out.clone())));
        out
    }
}
impl<M: Modulation> Modulation for TapMod<M>
where
    M::T: Sample,
{
    type T = M::T;
    type Modulator = TapModulator<M>;
    type Demodulator = TapDemodulator<M>;
    const BITS_PER_SYMBOL: f64 = M::BITS_PER_SYMBOL;
}

// ---------------------------------------------------------------- decoder tap

#[derive(Clone)]
pub struct TapFactory(pub Arc<Scen>);
impl std::fmt::Display for TapFactory {
    fn fmt(&self, f: &mut std::fmt::Formatter<'_>) -> std::fmt::Result {
        write!(f, "tap")
    }
}
impl DecoderFactory for TapFactory {
    fn build_decoder(&self, _h: SparseMatrix) -> Box<dyn LdpcDecoder> {
        Box::new(TapDecoder(self.0.clone()))
    }
}
pub struct TapDecoder(Arc<Scen>);
impl std::fmt::Debug for TapDecoder {
    fn fmt(&self, f: &mut std::fmt::Formatter<'_>) -> std::fmt::Result {
        write!(f, "TapDecoder")
    }
}

/// harness' own permutation: position in the interleaved frame -> position in the punctured codeword
fn interleave_src(n: usize, il: Option<isize>) -> Vec<usize> {
    match il {
        None => (0..n).collect(),
        Some(c) => {
            let cols = c.unsigned_abs();
            let rows = n / cols;
            let back = c < 0;
            let mut v = vec![0; n];
            for r in 0..rows {
                for cc in 0..cols {
                    let src = if back { (cols - 1 - cc) * rows + r } else { cc * rows + r };
                    v[r * cols + cc] = src;
                }
            }
            v
        }
    }
}

/// positions of the codeword that are kept by the pattern, in order
fn kept_positions(n_cw: usize, pattern: &Option<Vec<bool>>) -> Vec<usize> {
    match pattern {
        None => (0..n_cw).collect(),
        Some(p) => {
            let b = n_cw / p.len();
            (0..p.len()).filter(|&i| p[i]).flat_map(|i| i * b..(i + 1) * b).collect()
        }
    }
}

impl Scen {
    fn violation(&self, sig: &str, d: J) {
        let mut v = self.viol.lock().unwrap();
        if v.len() < 50 {
            v.push((sig.to_string(), d.set("configuration", self.desc.clone())));
        }
    }
}

impl LdpcDecoder for TapDecoder {
    fn decode(&mut self, llrs: &[f64], _max_iterations: usize) -> Result<DecoderOutput, DecoderOutput> {
        let s = &self.0;
        let fno = s.frames.fetch_add(1, Ordering::SeqCst);
        let fallback = |len: usize| Ok(DecoderOutput { codeword: vec![1; len.max(1)], iterations: 1 });
        if llrs.len() != s.n_cw {
            s.violation("the frame handed to the decoder does not have codeword length", J::obj().set("length", llrs.len()).set("codeword_length", s.n_cw));
            return fallback(llrs.len());
        }
        let kept = kept_positions(s.n_cw, &s.pattern);
        let mut is_kept = vec![false; s.n_cw];
        for &p in &kept {
            is_kept[p] = true;
        }
        for i in 0..s.n_cw {
            if !is_kept[i] && llrs[i].to_bits() != 0 {
                s.violation("a punctured position does not carry an exactly-zero LLR", J::obj().set("position", i).set("llr", llrs[i]));
                return fallback(llrs.len());
            }
        }
        // which codeword was sent?
        let mut known: Vec<Option<u8>> = vec![None; s.n_cw];
        let modrec = LAST_MOD.with(|c| c.borrow_mut().take());
        let demrec = LAST_DEMOD.with(|c| c.borrow_mut().take());
        if s.modtap {
            let (Some((bits, tx)), Some((sigma, rx, dl))) = (modrec, demrec) else {
                s.violation("decoder was called without a preceding modulate/demodulate on the same worker thread", J::obj().set("frame", fno));
                return fallback(llrs.len());
            };
            let bps = if s.psk8 { 3 } else { 1 };
            if bits.len() != s.n || tx.len() * bps != s.n || rx.len() != tx.len() || dl.len() != s.n {
                s.violation(
                    "the modulator/demodulator see a frame of the wrong size",
                    J::obj().set("bits", bits.len()).set("symbols", tx.len()).set("received", rx.len()).set("demodulated_llrs", dl.len()).set("expected_frame_size", s.n),
                );
                return fallback(llrs.len());
            }
            let src = interleave_src(s.n, s.il);
            // bits given to the modulator = interleave(puncture(c)): undo with the harness' own permutation
            let mut pc = vec![0u8; s.n];
            let mut pl = vec![0f64; s.n];
            for (dst, &sp) in src.iter().enumerate() {
                pc[sp] = bits[dst];
                pl[sp] = dl[dst];
            }
            for (j, &pos) in kept.iter().enumerate() {
                known[pos] = Some(pc[j]);
                // the inverses must cancel exactly: the decoder sees the demodulator's LLR of that very bit
                if llrs[pos].to_bits() != pl[j].to_bits() {
                    s.violation(
                        "deinterleaving/depuncturing do not cancel interleaving/puncturing exactly (LLR of another position arrives)",
                        J::obj().set("codeword_position", pos).set("decoder_llr", llrs[pos]).set("demodulator_llr_of_that_bit", pl[j]),
                    );
                    return fallback(llrs.len());
                }
                if s.high_snr && ((llrs[pos] <= 0.0) as u8) != pc[j] {
                    s.violation("noise aside, the sign of an LLR is not the transmitted codeword bit", J::obj().set("codeword_position", pos).set("llr", llrs[pos]).set("bit", pc[j]));
                    return fallback(llrs.len());
                }
            }
            // independence between workers: the first frame's noise of every worker thread must be different
            {
                let mut fnz = s.first_noise.lock().unwrap();
                let tid = std::thread::current().id();
                if !fnz.contains_key(&tid) {
                    // noise normalised by sigma and rounded to 1e-6: the same underlying sequence replayed at
                    // another Eb/N0 point (other sigma, other worker threads) gives the same digest
                    let mut d = Dig::new();
                    for i in 0..tx.len() {
                        d.u((((rx[i].0 - tx[i].0) / sigma) * 1e6).round() as i64 as u64);
                        d.u((((rx[i].1 - tx[i].1) / sigma) * 1e6).round() as i64 as u64);
                    }
                    fnz.insert(tid, d.get());
                }
            }
            // noise samples
            let mut g = s.acc.lock().unwrap();
            let a = g.entry(sigma.to_bits()).or_default();
            if a.pos_n.is_empty() {
                a.complex = s.psk8;
                a.pos_n = vec![0; tx.len()];
                a.pos_s1 = vec![0.0; tx.len()];
                a.pos_s2 = vec![0.0; tx.len()];
                a.pos_q1 = vec![0.0; tx.len()];
                a.pos_q2 = vec![0.0; tx.len()];
            }
            let mut prev: Option<f64> = None;
            for i in 0..tx.len() {
                let x = rx[i].0 - tx[i].0;
                let q = rx[i].1 - tx[i].1;
                a.n += 1;
                a.s1 += x;
                a.s2 += x * x;
                a.s4 += x * x * x * x;
                a.q1 += q;
                a.q2 += q * q;
                a.q4 += q * q * q * q;
                a.iq += x * q;
                if let Some(p) = prev {
                    a.lag += p * x;
                    a.lag_n += 1;
                }
                prev = Some(x);
                a.pos_n[i] += 1;
                a.pos_s1[i] += x;
                a.pos_s2[i] += x * x;
                a.pos_q1[i] += q;
                a.pos_q2[i] += q * q;
            }
        } else {
            // builder path (real modulators): at 40 dB the signs are the transmitted bits
            for &pos in &kept {
                known[pos] = Some((llrs[pos] <= 0.0) as u8);
            }
            if !s.psk8 {
                let mut g = s.llr2.lock().unwrap();
                for &pos in &kept {
                    g.0 += 1;
                    g.1 += llrs[pos] * llrs[pos];
                }
            }
            if !s.high_snr {
                // moderate SNR without the modulation tap: the transmitted word is unknown; return the
                // hard decision (its natural error rate terminates the point) - only the LLR scale is judged
                return Ok(DecoderOutput { codeword: llrs.iter().map(|&x| (x <= 0.0) as u8).collect(), iterations: 1 });
            }
        }
        // complete the punctured positions by solving H (the frame must be a punctured codeword of the code)
        let word = match complete_codeword(s.h.rows, s.h.cols, &s.h.e, &known) {
            None => {
                if s.modtap || s.high_snr {
                    s.violation(
                        "noise aside, the frame is not (a punctured version of) a codeword of the code in codeword bit order",
                        J::obj().set("frame", fno).set("known_bits", format!("{:?}", known.iter().map(|k| k.map(|b| b as i8).unwrap_or(-1)).collect::<Vec<_>>())),
                    );
                }
                return fallback(llrs.len());
            }
            Some((w, free)) => {
                if free > 0 {
                    s.all_unique.store(false, Ordering::SeqCst);
                }
                w
            }
        };
        let mut out = word;
        // scripted frame error so that the point terminates: flip systematic bit 0 in every period-th frame
        if fno % s.period == 0 {
            // (one more bit than the outer-code threshold of the run corrects)
            for b in out.iter_mut().take(s.flip) {
                *b ^= 1;
            }
        }
        Ok(DecoderOutput { codeword: out, iterations: 1 })
    }
}

// ---------------------------------------------------------------- configurations

#[derive(Clone)]
struct Config {
    h: Mat,
    pattern: Option<Vec<bool>>,
    il: Option<isize>,
    psk8: bool,
}

fn ra(r: usize, n: usize, rng: &mut Rng, dense_tail: bool) -> Mat {
    let k = n - r;
    let mut e = Vec::new();
    for c in 0..k {
        for j in rng.choose(r, 2.min(r)) {
            e.push((j, c));
        }
    }
    if dense_tail {
        // invertible dense tail: lower triangular with random fill below the diagonal
        for j in 0..r {
            e.push((j, k + j));
            for jj in 0..j {
                if rng.chance(0.4) {
                    e.push((j, k + jj));
                }
            }
        }
    } else {
        for j in 0..r {
            e.push((j, k + j));
            if j > 0 {
                e.push((j, k + j - 1));
            }
        }
    }
    Mat::new(r, n, e, if dense_tail { "dense-tail" } else { "ra" })
}

fn peg_30x60() -> Option<Mat> {
    let h = ldpc_toolbox::peg::Config { nrows: 30, ncols: 60, wc: 3 }.run(7).ok()?;
    let hs = ldpc_toolbox::systematic::parity_to_systematic(&h).ok()?;
    Some(Mat::new(30, 60, crate::genm::from_sparse(&hs), "peg-30x60-systematic"))
}

fn gen_config(rng: &mut Rng, idx: u64) -> Config {
    let h = match idx % 6 {
        0 => ra(12, 24, rng, false),
        1 => ra(6, 12, rng, false),
        2 => ra(9, 15, rng, true),
        3 => peg_30x60().unwrap_or_else(|| ra(30, 60, rng, false)),
        4 => ra(15, 35, rng, false),
        _ => ra(28, 63, rng, false),
    };
    let n_cw = h.cols;
    // candidate patterns whose length divides n_cw
    let mut pats: Vec<Option<Vec<bool>>> = vec![None];
    for len in [3usize, 4, 5, 6, 7, 9] {
        if n_cw % len == 0 {
            let mut tail = vec![true; len];
            tail[len - 1] = false;
            pats.push(Some(tail));
            let mut info = vec![true; len];
            info[0] = false;
            pats.push(Some(info));
            if len >= 4 {
                let mut two = vec![true; len];
                two[1] = false;
                two[len - 1] = false;
                pats.push(Some(two));
            }
        }
    }
    let pattern = rng.pick(&pats).clone();
    let n = match &pattern {
        None => n_cw,
        Some(p) => n_cw / p.len() * p.iter().filter(|&&b| b).count(),
    };
    let psk8 = n % 3 == 0 && rng.coin();
    let mut ils: Vec<Option<isize>> = vec![None];
    for c in [2isize, 3, 4, 6] {
        if n % (c as usize) == 0 {
            ils.push(Some(c));
            ils.push(Some(-c));
        }
    }
    // degenerate shapes: a single row (columns = frame length) and a single column, forwards and backwards
    for c in [n as isize, 1, (n / 2) as isize] {
        if c >= 1 && n % (c as usize) == 0 {
            ils.push(Some(c));
            ils.push(Some(-c));
        }
    }
    let il = *rng.pick(&ils);
    Config { h, pattern, il, psk8 }
}

fn expected_sigma(k: usize, n: usize, bps: f64, ebn0_db: f32) -> f64 {
    let rate = k as f64 / n as f64;
    let ebn0 = 10f64.powf(f64::from(ebn0_db) / 10.0);
    (0.5 / (rate * bps * ebn0)).sqrt()
}

fn run_config(l: &mut Local, cfg: &Config, modtap: bool, ebn0s: &[f32], frames_goal: u64, idx: u64) {
    let n_cw = cfg.h.cols;
    let k = cfg.h.cols - cfg.h.rows;
    let n = match &cfg.pattern {
        None => n_cw,
        Some(p) => n_cw / p.len() * p.iter().filter(|&&b| b).count(),
    };
    // does the pattern remove information bits? then the harness cannot always know the message and
    // (nearly) every frame counts as a frame error: let every frame be an error frame and ask for as
    // many errors as frames are wanted; otherwise inject one error frame every `period` frames
    let punct_sys_early = cfg.pattern.as_ref().map(|p| {
        let b = n_cw / p.len();
        (0..p.len()).any(|i| !p[i] && i * b < k)
    }) == Some(true);
    // outer-code threshold: irrelevant to everything this property states, so it must not change anything observed here
    let bch: u64 = if punct_sys_early || k < 5 { 0 } else { [0u64, 0, 1, 3, 0, 0][(idx % 6) as usize] };
    let (target, period) = if punct_sys_early { (frames_goal.max(1), 1u64) } else { (20u64, (frames_goal / 20).max(1)) };
    let desc = format!(
        "H {}x{} ({}), {}, puncturing {:?}, interleaver {:?}, Eb/N0 {:?}, {}",
        cfg.h.rows,
        cfg.h.cols,
        cfg.h.family,
        if cfg.psk8 { "8PSK" } else { "BPSK" },
        cfg.pattern.as_ref().map(|p| p.iter().map(|&b| b as u8).collect::<Vec<_>>()),
        cfg.il,
        ebn0s,
        if modtap { "modulation tap + decoder tap (BerTest::<TapMod<_>, _>::new)" } else { "decoder tap through BerTestBuilder" }
    );
    let sc = Arc::new(Scen {
        h: cfg.h.clone(),
        pattern: cfg.pattern.clone(),
        il: cfg.il,
        psk8: cfg.psk8,
        n_cw,
        n,
        k,
        modtap,
        high_snr: ebn0s.iter().all(|&e| e >= 30.0),
        period,
        flip: bch as usize + 1,
        frames: AtomicU64::new(1),
        viol: Mutex::new(Vec::new()),
        acc: Mutex::new(HashMap::new()),
        sigmas: Mutex::new(Vec::new()),
        all_unique: AtomicBool::new(true),
        llr2: Mutex::new((0, 0.0)),
        first_noise: Mutex::new(HashMap::new()),
        desc: desc.clone(),
    });
    *SCEN.write().unwrap() = Some(sc.clone());
    let h = cfg.h.to_sparse();
    let fac = TapFactory(sc.clone());
    l.eval();
    let det = || J::obj().set("configuration", desc.clone());
    // build
    let built: Result<Result<Box<dyn Ber>, String>, String> = guard(|| {
        if modtap {
            if cfg.psk8 {
                BerTest::<TapMod<Psk8>, TapFactory>::new(h.clone(), fac.clone(), cfg.pattern.as_deref(), cfg.il, target, 5, ebn0s, None, bch)
                    .map(|t| Box::new(t) as Box<dyn Ber>)
                    .map_err(|e| e.to_string())
            } else {
                BerTest::<TapMod<Bpsk>, TapFactory>::new(h.clone(), fac.clone(), cfg.pattern.as_deref(), cfg.il, target, 5, ebn0s, None, bch)
                    .map(|t| Box::new(t) as Box<dyn Ber>)
                    .map_err(|e| e.to_string())
            }
        } else {
            BerTestBuilder {
                h: h.clone(),
                decoder_implementation: fac.clone(),
                modulation: if cfg.psk8 { ModEnum::Psk8 } else { ModEnum::Bpsk },
                puncturing_pattern: cfg.pattern.as_deref(),
                interleaving_columns: cfg.il,
                max_frame_errors: target,
                max_iterations: 5,
                ebn0s_db: ebn0s,
                reporter: None,
                bch_max_errors: bch,
            }
            .build()
            .map_err(|e| e.to_string())
        }
    });
    let test = match built {
        Ok(Ok(t)) => t,
        Ok(Err(e)) => {
            l.violation("BER test cannot be built for a valid configuration", det().set("error", e));
            return;
        }
        Err(p) => {
            l.violation(format!("BER test construction panicked: {}", panic_class(&p)), det().set("panic", p));
            return;
        }
    };
    // reported sizes
    let want_rate = k as f64 / n as f64;
    if test.n() != n || test.n_cw() != n_cw || test.k() != k || (test.rate() - want_rate).abs() > 1e-15 {
        l.violation(
            "the reported frame size / codeword size / information size / rate are inconsistent with the configuration",
            det().set("reported", format!("n={} n_cw={} k={} rate={}", test.n(), test.n_cw(), test.k(), test.rate())).set("expected", format!("n={} n_cw={} k={} rate={}", n, n_cw, k, want_rate)),
        );
    }
    let res = guard(move || test.run().map_err(|e| e.to_string()));
    *SCEN.write().unwrap() = None;
    let stats = match res {
        Ok(Ok(s)) => s,
        Ok(Err(e)) => {
            l.violation("BER run failed for a valid configuration", det().set("error", e));
            return;
        }
        Err(p) => {
            l.violation(format!("BER run panicked for a valid configuration: {}", panic_class(&p)), det().set("panic", p));
            return;
        }
    };
    // online violations found on the worker threads
    let mut seen = std::collections::HashSet::new();
    for (sig, d) in sc.viol.lock().unwrap().iter() {
        if seen.insert(sig.clone()) {
            l.violation(sig.clone(), d.clone());
        }
    }
    let frames = sc.frames.load(Ordering::SeqCst) - 1;
    l.count_n("frames_checked", frames);
    // systematic codeword: the engine compared our returned word with the message it encoded
    let punct_sys = cfg.pattern.as_ref().map(|p| {
        let b = n_cw / p.len();
        (0..p.len()).any(|i| !p[i] && i * b < k)
    }) == Some(true);
    if sc.viol.lock().unwrap().is_empty() && (!punct_sys || sc.all_unique.load(Ordering::SeqCst)) && (modtap || sc.high_snr) {
        for st in &stats {
            // (every scripted error frame carries bch + 1 wrong systematic bits)
            if st.ldpc.bit_errors != (bch + 1) * st.ldpc.frame_errors || st.ldpc.frame_errors != target {
                l.violation(
                    "the word recovered from the frame is not the systematic codeword of the message the simulator encoded",
                    det().set("bit_errors", st.ldpc.bit_errors).set("frame_errors", st.ldpc.frame_errors).set("expected_frame_errors", target).set("expected_bit_errors_per_error_frame", bch + 1),
                );
                break;
            }
        }
    }
    // sigma: exact part of the scaling clause
    let bps = if cfg.psk8 { 3.0 } else { 1.0 };
    if modtap {
        let sig = sc.sigmas.lock().unwrap().clone();
        for (pi, &eb) in ebn0s.iter().enumerate() {
            let want = expected_sigma(k, n, bps, eb);
            let got: Vec<f64> = sig.iter().cloned().filter(|s| (s / want - 1.0).abs() < 0.5).collect();
            let bad = sig.iter().any(|s| ebn0s.iter().all(|&e2| (s / expected_sigma(k, n, bps, e2) - 1.0).abs() > 1e-12));
            if got.is_empty() || bad {
                l.violation(
                    "the noise sigma given to the demodulator is not sqrt(0.5 / (rate * bits_per_symbol * Eb/N0)) with the rate counted after puncturing",
                    det().set("point", pi).set("ebn0_db", eb as f64).set("expected_sigma", want).set("sigmas_seen", format!("{:?}", sig.iter().take(6).collect::<Vec<_>>())),
                );
                break;
            }
        }
        // independence between workers (a generator seeded identically in every worker would pass all pooled tests)
        {
            let fnz = sc.first_noise.lock().unwrap();
            let mut seen: HashMap<u64, usize> = HashMap::new();
            for v in fnz.values() {
                *seen.entry(*v).or_insert(0) += 1;
            }
            l.max("worker_threads_with_distinct_first_noise", seen.len() as f64);
            if let Some((_, n)) = seen.iter().find(|(_, n)| **n > 1) {
                l.violation(
                    "channel noise: different worker threads (of the same or of another Eb/N0 point) receive the identical normalised noise sequence (not independent)",
                    det().set("workers_sharing_one_sequence", *n).set("worker_threads", fnz.len()),
                );
            }
        }
        // statistical tests on the recorded noise
        let accs = sc.acc.lock().unwrap().clone();
        for (sb, a) in accs {
            let sigma = f64::from_bits(sb);
            if a.n < 20_000 {
                l.inconclusive(format!("too few noise samples ({}) for the statistical tests in {}", a.n, desc));
                continue;
            }
            let nn = a.n as f64;
            let s2 = sigma * sigma;
            let mut tests: Vec<(&str, f64, f64)> = Vec::new(); // (name, |statistic|, bound)
            tests.push(("mean of the noise is not zero", (a.s1 / nn).abs(), Z * sigma / nn.sqrt()));
            tests.push(("variance of the noise does not correspond to the requested Eb/N0", (a.s2 / (nn * s2) - 1.0).abs(), Z * (2.0 / nn).sqrt()));
            tests.push(("noise is not Gaussian (fourth moment)", (a.s4 / (nn * 3.0 * s2 * s2) - 1.0).abs(), Z * (96.0 / nn).sqrt() / 3.0));
            if a.lag_n > 0 {
                tests.push(("noise samples are correlated (lag 1)", (a.lag / (a.lag_n as f64 * s2)).abs(), Z / (a.lag_n as f64).sqrt()));
            }
            if a.complex {
                tests.push(("mean of the imaginary noise is not zero", (a.q1 / nn).abs(), Z * sigma / nn.sqrt()));
                tests.push(("variance of the imaginary noise does not correspond to the requested Eb/N0", (a.q2 / (nn * s2) - 1.0).abs(), Z * (2.0 / nn).sqrt()));
                tests.push(("imaginary noise is not Gaussian (fourth moment)", (a.q4 / (nn * 3.0 * s2 * s2) - 1.0).abs(), Z * (96.0 / nn).sqrt() / 3.0));
                tests.push(("real and imaginary noise are correlated", (a.iq / (nn * s2)).abs(), Z / nn.sqrt()));
                tests.push(("real and imaginary noise have different variances", ((a.s2 - a.q2) / (nn * s2)).abs(), Z * 2.0 / nn.sqrt()));
            }
            for (name, stat, bound) in &tests {
                l.max(&format!("worst_z:{}", name.split(' ').take(4).collect::<Vec<_>>().join("_")), stat / bound * Z);
                l.count("statistical_tests");
                if stat > bound {
                    l.violation(format!("channel noise: {}", name), det().set("sigma", sigma).set("samples", a.n).set("statistic", *stat).set("bound_at_z_6.5", *bound));
                }
            }
            // per symbol position within the frame (a position that never receives noise shows here)
            for i in 0..a.pos_n.len() {
                let f = a.pos_n[i] as f64;
                if f < 400.0 {
                    continue;
                }
                l.count("statistical_tests");
                let v = a.pos_s2[i] / (f * s2);
                let mbound = Z * sigma / f.sqrt();
                let bad_i = (v - 1.0).abs() > Z * (2.0 / f).sqrt() || (a.pos_s1[i] / f).abs() > mbound;
                let bad_q = a.complex && ((a.pos_q2[i] / (f * s2) - 1.0).abs() > Z * (2.0 / f).sqrt() || (a.pos_q1[i] / f).abs() > mbound);
                if bad_i || bad_q {
                    l.violation(
                        "channel noise: a symbol position of the frame does not receive noise of the required variance",
                        det().set("sigma", sigma).set("symbol_position", i).set("frames", a.pos_n[i]).set("variance_ratio_real", v).set("variance_ratio_imag", a.pos_q2[i] / (f * s2)),
                    );
                    break;
                }
            }
            l.count_n("noise_samples", a.n);
        }
    } else if !cfg.psk8 {
        // builder path, BPSK: second moment of the LLRs identifies sigma without knowing the bits
        let (cnt, sum2) = *sc.llr2.lock().unwrap();
        if cnt > 10_000 && ebn0s.len() == 1 {
            let sigma = expected_sigma(k, n, 1.0, ebn0s[0]);
            let mu = 2.0 / (sigma * sigma);
            let want = mu * mu + 2.0 * mu;
            let sd = ((8.0 * mu * mu + 8.0 * mu * mu * mu) / cnt as f64).sqrt();
            l.count("statistical_tests");
            if (sum2 / cnt as f64 - want).abs() > Z * sd {
                l.violation(
                    "LLR scale on the built-in BPSK path does not correspond to the requested Eb/N0 (rate after puncturing)",
                    det().set("mean_llr_squared", sum2 / cnt as f64).set("expected", want).set("bound", Z * sd).set("samples", cnt),
                );
            }
        }
    }
    if cfg.pattern.is_some() || cfg.il.is_some() {
        let mut d = Dig::new();
        d.s(&desc).u(idx);
        l.nt(d.get());
    }
    l.sample(|| det().set("frames_checked", frames).set("points", stats.len()));
}

pub fn run(run: &mut Run) {
    run.rule = "real BerTest engine with (a) a decoder tap injected through BerTestBuilder (real BPSK/8PSK, Eb/N0 40 dB and, for BPSK, 6 dB) and (b) a modulation tap TapMod<M> + decoder tap through BerTest::new (Eb/N0 40, 3 and 8 dB); codes: RA 12x24, 6x12, dense-tail 9x15, PEG 30x60 (made systematic), RA 15x35, RA 28x63; puncturing none / tail block / information block / two blocks with pattern lengths 3..9 dividing n_cw (incl. 6-of-7 and 8-of-9 whose ratio is not exact in floating point); interleaver none or +-{2,3,4,6, 1, n/2, n} dividing n; outer-code threshold 0 (two thirds of the runs), 1 or 3 (the noise level must follow the reported rate whatever the threshold); EVERY frame of EVERY worker is checked on the worker thread: length, exact +0.0 at punctured positions, bits given to the modulator = interleave(puncture(c)) for a codeword c (harness' own inverse permutation, punctured part completed by solving H), decoder LLR at every kept position bit-identical to the demodulator's LLR of that bit, signs at 40 dB, sigma = sqrt(0.5/(rate*bps*EbN0)) to 1e-12, systematic codeword (engine's own bit-error count), n/n_cw/k/rate; noise = received - modulated: mean, variance, 4th moment, lag-1, I/Q correlation, I/Q variance equality, per-symbol-position variance/mean, all at z = 6.5, and the first frame's noise vector (normalised by sigma) must differ between all worker threads of all Eb/N0 points of the run; non-trivial = configuration with puncturing or interleaving".into();
    run.assumptions = vec![
        "statistical tests use z = 6.5 (two-sided tail 8e-11 per test); with a few thousand tests per run the false-alarm probability is below 1e-6 per run".into(),
        "expected bits per symbol come from the harness (BPSK 1, 8PSK 3), not from the library constant".into(),
    ];
    let miri = cfg!(miri);
    let n = if miri { 1 } else { run.tier.n(90, 1500) };
    let thorough = run.tier == crate::ctx::Tier::Thorough;
    run.sub_seq("modulation-tap", n, move |l, idx, rng| {
        let cfg = gen_config(rng, idx);
        let nsym = 20.0;
        let goal = if cfg!(miri) { 40 } else if thorough { (2_000_000.0 / nsym) as u64 } else { (250_000.0 / nsym) as u64 };
        let ebn0s: Vec<f32> = match idx % 3 {
            0 => vec![40.0],
            1 => vec![3.0, 4.0],
            _ => vec![8.0, 40.0],
        };
        run_config(l, &cfg, true, &ebn0s, goal, idx);
    });
    let n2 = if miri { 1 } else { run.tier.n(60, 800) };
    run.sub_seq("builder-path", n2, move |l, idx, rng| {
        let mut cfg = gen_config(rng, idx + 1000);
        let ebn0s: Vec<f32> = if idx % 3 == 2 {
            cfg.psk8 = false;
            if matches!(&cfg.pattern, Some(p) if !p[0]) {
                // a punctured information block would make every hard-decision frame wrong: too few frames for the test
                cfg.pattern = None;
                if let Some(c) = cfg.il {
                    if cfg.h.cols % c.unsigned_abs() != 0 {
                        cfg.il = None;
                    }
                }
            }
            vec![6.0]
        } else {
            vec![40.0]
        };
        // (an 8PSK choice is only valid if n is a multiple of 3; gen_config guarantees it before we possibly switched to BPSK)
        run_config(l, &cfg, false, &ebn0s, if cfg!(miri) { 40 } else { 6000 }, idx + 1000);
    });
}
