#!/bin/bash
# C-side leg of C19: build the driver against the library built from the
# working tree, replay the generated cases, compare with the expectation.
#   cdriver.sh asan|valgrind <tier> <seed>
set -u
MODE=$1; TIER=$2; SEED=$3
VERIF=/verif; T=$VERIF/target; D=$T/cdriver; L=$T/legs
mkdir -p "$D" "$L"
LIBDIR=$T/repo/release
NATIVE=$T/harness/release/lv
"$NATIVE" C19 --tier "$TIER" --seed "$SEED" --leg gen --dir "$L" >"$L/C19.gen.out" 2>&1 || { echo "gen failed"; cat "$L/C19.gen.out"; exit 3; }
CASES=$L/C19.cases.txt; EXP=$L/C19.expected.txt; GOT=$L/C19.got.$MODE.txt
if [ "$MODE" = asan ]; then
  clang -g -O1 -fsanitize=address,undefined -fno-sanitize-recover=all -fno-omit-frame-pointer -I/repo/include \
     "$VERIF/cdriver/roundtrip.c" "$LIBDIR/libldpc_toolbox.a" -lpthread -ldl -lm -o "$D/roundtrip-asan" || { echo "driver build failed"; exit 3; }
  ASAN_OPTIONS=halt_on_error=1:abort_on_error=0:detect_leaks=1:exitcode=23 UBSAN_OPTIONS=halt_on_error=1:print_stacktrace=1 "$D/roundtrip-asan" "$CASES" >"$GOT"
  rc=$?
else
  clang -g -gdwarf-4 -O1 -I/repo/include "$VERIF/cdriver/roundtrip.c" -L"$LIBDIR" -lldpc_toolbox -Wl,-rpath,"$LIBDIR" -lpthread -ldl -lm -o "$D/roundtrip-so" || { echo "driver build failed"; exit 3; }
  valgrind --error-exitcode=24 --leak-check=full --errors-for-leak-kinds=definite --show-leak-kinds=definite -q "$D/roundtrip-so" "$CASES" >"$GOT"
  rc=$?
fi
echo "driver exit status $rc"
NC=$(wc -l <"$EXP")
ND=0
if ! cmp -s "$EXP" "$GOT"; then
  # report the first differing lines as leg violations
  while IFS= read -r line; do
    ND=$((ND+1))
    [ $ND -le 5 ] && echo "LEGVIOLATION {\"sig\": \"C driver output differs from what the Rust API computes\", \"sub\": \"cdriver-$MODE\", \"index\": 0, \"diff\": \"$(echo "$line" | tr -d '"\\' | cut -c1-200)\"}"
  done < <(diff "$EXP" "$GOT" | grep '^[<>]' | head -20)
fi
if [ $rc -ne 0 ] && [ $rc -ne 23 ] && [ $rc -ne 24 ]; then
  echo "LEGVIOLATION {\"sig\": \"C driver died with status $rc while calling the library\", \"sub\": \"cdriver-$MODE\", \"index\": 0}"
fi
echo "LEGSUMMARY {\"leg\": \"cdriver-$MODE\", \"cases_replayed\": $NC, \"differences\": $ND, \"driver_status\": $rc}"
# sanitizer / valgrind reports are in this log (stderr) and are picked up by the integrating process
[ $rc -eq 0 ] && [ $ND -eq 0 ]
