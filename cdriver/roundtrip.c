/* C-side monitor for property C19.
 *
 * Includes the shipped header, links the real library built from the working
 * tree and replays a case file written by the Rust harness (`lv C19 --leg gen`).
 * All buffers handed to the library are EXACTLY sized heap blocks, so that an
 * over-read or over-write by one byte lands in a red zone (ASan) or is seen by
 * valgrind memcheck. Results are printed in a canonical form that the check
 * script compares with the harness' expectation.
 *
 * Case file (three lines per case):
 *   D <impl> <punct|-> <maxiter> <output_len> <f32flag> <nllrs> / <alist with | for newlines> / <llrs>
 *   E <punct|-> <k> <outlen>                                     / <alist>                      / <bits>
 *   N <impl> <punct|->   (constructor must return NULL)          / <alist>                      / -
 *   L <count>            (ctor/dtor cycles, leak check)          / <alist>                      / -
 */
#define _GNU_SOURCE
#include "ldpc_toolbox.h"
#include <stdio.h>
#include <stdlib.h>
#include <string.h>

static char *readline_dyn(FILE *f) {
    size_t cap = 0;
    char *line = NULL;
    ssize_t n = getline(&line, &cap, f);
    if (n < 0) {
        free(line);
        return NULL;
    }
    if (n > 0 && line[n - 1] == '\n') line[n - 1] = 0;
    return line;
}

static char *exact_copy(const char *s) {
    size_t n = strlen(s) + 1;
    char *p = malloc(n);
    memcpy(p, s, n);
    return p;
}

int main(int argc, char **argv) {
    if (argc < 2) {
        fprintf(stderr, "usage: roundtrip <case-file>\n");
        return 2;
    }
    FILE *f = fopen(argv[1], "r");
    if (!f) {
        perror("case file");
        return 2;
    }
    char *hdr;
    long ncases = 0;
    while ((hdr = readline_dyn(f)) != NULL) {
        char *alist_line = readline_dyn(f);
        char *data = readline_dyn(f);
        if (!alist_line || !data) {
            fprintf(stderr, "truncated case file\n");
            return 2;
        }
        for (char *p = alist_line; *p; p++)
            if (*p == '|') *p = '\n';
        char *alist = exact_copy(alist_line);
        ncases++;
        if (hdr[0] == 'D') {
            char impl[128], punct[128];
            unsigned maxiter;
            size_t outlen, nllrs;
            int f32;
            if (sscanf(hdr, "D %127s %127s %u %zu %d %zu", impl, punct, &maxiter, &outlen, &f32, &nllrs) != 6) {
                fprintf(stderr, "bad header %s\n", hdr);
                return 2;
            }
            char *ci = exact_copy(impl);
            char *cp = exact_copy(strcmp(punct, "-") == 0 ? "" : punct);
            void *dec = ldpc_toolbox_decoder_ctor_alist_string(alist, ci, cp);
            if (!dec) {
                printf("D NULL\n");
            } else {
                double *llrs = malloc(nllrs * sizeof(double));
                char *p = data;
                for (size_t i = 0; i < nllrs; i++) llrs[i] = strtod(p, &p);
                uint8_t *out = malloc(outlen);
                memset(out, 0xAA, outlen);
                int32_t ret;
                if (f32) {
                    float *l32 = malloc(nllrs * sizeof(float));
                    for (size_t i = 0; i < nllrs; i++) l32[i] = (float)llrs[i];
                    ret = ldpc_toolbox_decoder_decode_f32(dec, out, outlen, l32, nllrs, maxiter);
                    /* a second call on the same handle must give the same answer */
                    uint8_t *out2 = malloc(outlen);
                    int32_t ret2 = ldpc_toolbox_decoder_decode_f32(dec, out2, outlen, l32, nllrs, maxiter);
                    if (ret2 != ret || memcmp(out, out2, outlen) != 0) printf("D REPEAT-DIFFERS\n");
                    free(out2);
                    free(l32);
                } else {
                    ret = ldpc_toolbox_decoder_decode_f64(dec, out, outlen, llrs, nllrs, maxiter);
                    uint8_t *out2 = malloc(outlen);
                    int32_t ret2 = ldpc_toolbox_decoder_decode_f64(dec, out2, outlen, llrs, nllrs, maxiter);
                    if (ret2 != ret || memcmp(out, out2, outlen) != 0) printf("D REPEAT-DIFFERS\n");
                    free(out2);
                }
                printf("D %d ", (int)ret);
                for (size_t i = 0; i < outlen; i++) printf("%u", (unsigned)out[i]);
                printf("\n");
                free(out);
                free(llrs);
                ldpc_toolbox_decoder_dtor(dec);
            }
            free(ci);
            free(cp);
        } else if (hdr[0] == 'E') {
            char punct[128];
            size_t k, outlen;
            if (sscanf(hdr, "E %127s %zu %zu", punct, &k, &outlen) != 3) {
                fprintf(stderr, "bad header %s\n", hdr);
                return 2;
            }
            char *cp = exact_copy(strcmp(punct, "-") == 0 ? "" : punct);
            void *enc = ldpc_toolbox_encoder_ctor_alist_string(alist, cp);
            if (!enc) {
                printf("E NULL\n");
            } else {
                uint8_t *in = malloc(k ? k : 1);
                for (size_t i = 0; i < k; i++) in[i] = (uint8_t)(data[i] - '0');
                uint8_t *out = malloc(outlen ? outlen : 1);
                memset(out, 0xAA, outlen);
                ldpc_toolbox_encoder_encode(enc, out, outlen, in, k);
                printf("E ");
                for (size_t i = 0; i < outlen; i++) printf("%u", (unsigned)out[i]);
                printf("\n");
                free(in);
                free(out);
                ldpc_toolbox_encoder_dtor(enc);
            }
            free(cp);
        } else if (hdr[0] == 'N') {
            char impl[128], punct[128];
            if (sscanf(hdr, "N %127s %127s", impl, punct) != 2) return 2;
            char *ci = exact_copy(impl);
            char *cp = exact_copy(strcmp(punct, "-") == 0 ? "" : punct);
            void *dec = ldpc_toolbox_decoder_ctor_alist_string(alist, ci, cp);
            printf("N %s\n", dec ? "NONNULL" : "NULL");
            if (dec) ldpc_toolbox_decoder_dtor(dec);
            free(ci);
            free(cp);
        } else if (hdr[0] == 'L') {
            long count = atol(hdr + 2);
            for (long i = 0; i < count; i++) {
                void *dec = ldpc_toolbox_decoder_ctor_alist_string(alist, "HLMinstarapproxi8", "1,1,0");
                if (!dec) {
                    printf("L NULL\n");
                    break;
                }
                ldpc_toolbox_decoder_dtor(dec);
                void *enc = ldpc_toolbox_encoder_ctor_alist_string(alist, "");
                if (enc) ldpc_toolbox_encoder_dtor(enc);
            }
            printf("L done\n");
        }
        free(alist);
        free(alist_line);
        free(data);
        free(hdr);
    }
    fclose(f);
    fprintf(stderr, "cases: %ld\n", ncases);
    return 0;
}
