//! The harness' own table of the 36 implementation names (written from the
//! enum's documentation: HL prefix = horizontal layered, rest of the name =
//! arithmetic type) and direct construction of the generic decoders.

use ldpc_toolbox::decoder::LdpcDecoder;
use ldpc_toolbox::decoder::arithmetic::*;
use ldpc_toolbox::decoder::{flooding, horizontal_layered};
use ldpc_toolbox::sparse::SparseMatrix;

pub const ARITH_NAMES: [&str; 24] = [
    "Phif64",
    "Phif32",
    "Tanhf64",
    "Tanhf32",
    "Minstarapproxf64",
    "Minstarapproxf32",
    "Minstarapproxi8",
    "Minstarapproxi8Jones",
    "Minstarapproxi8PartialHardLimit",
    "Minstarapproxi8JonesPartialHardLimit",
    "Minstarapproxi8Deg1Clip",
    "Minstarapproxi8JonesDeg1Clip",
    "Minstarapproxi8PartialHardLimitDeg1Clip",
    "Minstarapproxi8JonesPartialHardLimitDeg1Clip",
    "Aminstarf64",
    "Aminstarf32",
    "Aminstari8",
    "Aminstari8Jones",
    "Aminstari8PartialHardLimit",
    "Aminstari8JonesPartialHardLimit",
    "Aminstari8Deg1Clip",
    "Aminstari8JonesDeg1Clip",
    "Aminstari8PartialHardLimitDeg1Clip",
    "Aminstari8JonesPartialHardLimitDeg1Clip",
];

/// arithmetics available with the horizontal layered schedule
pub const HL_ARITH: [&str; 12] = [
    "Phif64",
    "Phif32",
    "Tanhf64",
    "Tanhf32",
    "Minstarapproxf64",
    "Minstarapproxf32",
    "Minstarapproxi8",
    "Minstarapproxi8PartialHardLimit",
    "Aminstarf64",
    "Aminstarf32",
    "Aminstari8",
    "Aminstari8PartialHardLimit",
];

/// The 36 names: 24 flooding + 12 "HL" + arithmetic
pub fn all_names() -> Vec<String> {
    let mut v: Vec<String> = ARITH_NAMES.iter().map(|s| s.to_string()).collect();
    v.extend(HL_ARITH.iter().map(|s| format!("HL{}", s)));
    v
}

/// Call `$body` with the type alias `A` bound to the arithmetic named `$name`.
#[macro_export]
macro_rules! with_arith {
    ($name:expr, $A:ident, $body:block, $fallback:block) => {{
        use ldpc_toolbox::decoder::arithmetic::*;
        macro_rules! arm {
            ($t:ty) => {{
                type $A = $t;
                $body
            }};
        }
        match $name {
            "Phif64" => arm!(Phif64),
            "Phif32" => arm!(Phif32),
            "Tanhf64" => arm!(Tanhf64),
            "Tanhf32" => arm!(Tanhf32),
            "Minstarapproxf64" => arm!(Minstarapproxf64),
            "Minstarapproxf32" => arm!(Minstarapproxf32),
            "Minstarapproxi8" => arm!(Minstarapproxi8),
            "Minstarapproxi8Jones" => arm!(Minstarapproxi8Jones),
            "Minstarapproxi8PartialHardLimit" => arm!(Minstarapproxi8PartialHardLimit),
            "Minstarapproxi8JonesPartialHardLimit" => arm!(Minstarapproxi8JonesPartialHardLimit),
            "Minstarapproxi8Deg1Clip" => arm!(Minstarapproxi8Deg1Clip),
            "Minstarapproxi8JonesDeg1Clip" => arm!(Minstarapproxi8JonesDeg1Clip),
            "Minstarapproxi8PartialHardLimitDeg1Clip" => arm!(Minstarapproxi8PartialHardLimitDeg1Clip),
            "Minstarapproxi8JonesPartialHardLimitDeg1Clip" => arm!(Minstarapproxi8JonesPartialHardLimitDeg1Clip),
            "Aminstarf64" => arm!(Aminstarf64),
            "Aminstarf32" => arm!(Aminstarf32),
            "Aminstari8" => arm!(Aminstari8),
            "Aminstari8Jones" => arm!(Aminstari8Jones),
            "Aminstari8PartialHardLimit" => arm!(Aminstari8PartialHardLimit),
            "Aminstari8JonesPartialHardLimit" => arm!(Aminstari8JonesPartialHardLimit),
            "Aminstari8Deg1Clip" => arm!(Aminstari8Deg1Clip),
            "Aminstari8JonesDeg1Clip" => arm!(Aminstari8JonesDeg1Clip),
            "Aminstari8PartialHardLimitDeg1Clip" => arm!(Aminstari8PartialHardLimitDeg1Clip),
            "Aminstari8JonesPartialHardLimitDeg1Clip" => arm!(Aminstari8JonesPartialHardLimitDeg1Clip),
            _ => $fallback,
        }
    }};
}

/// Directly constructed generic decoder for a name of the harness' table.
pub fn direct(name: &str, h: SparseMatrix) -> Option<Box<dyn LdpcDecoder>> {
    let (layered, arith) = match name.strip_prefix("HL") {
        Some(a) => (true, a),
        None => (false, name),
    };
    if layered && !HL_ARITH.contains(&arith) {
        return None;
    }
    with_arith!(
        arith,
        A,
        {
            if layered {
                Some(Box::new(horizontal_layered::Decoder::new(h, <A>::new())) as Box<dyn LdpcDecoder>)
            } else {
                Some(Box::new(flooding::Decoder::new(h, <A>::new())) as Box<dyn LdpcDecoder>)
            }
        },
        { None }
    )
}

pub fn is_i8(arith: &str) -> bool {
    arith.contains("i8")
}
pub fn is_f32(arith: &str) -> bool {
    arith.ends_with("f32")
}
pub fn has_jones(arith: &str) -> bool {
    arith.contains("Jones")
}
pub fn has_phl(arith: &str) -> bool {
    arith.contains("PartialHardLimit")
}
pub fn has_deg1(arith: &str) -> bool {
    arith.contains("Deg1Clip")
}
pub fn is_amin(arith: &str) -> bool {
    arith.starts_with("Aminstar")
}
pub fn is_minstarapprox(arith: &str) -> bool {
    arith.starts_with("Minstarapprox")
}
#[allow(dead_code)]
fn _unused(_: Phif64) {}
