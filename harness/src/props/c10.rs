//! C10 – a decoder object carries no state from one frame to the next.

use crate::ctx::{Local, Run, guard, panic_class};
use crate::genm::{self, Mat, sign_pattern};
use crate::json::{J, jfs};
use crate::oracle::is_codeword;
use crate::rng::{Dig, Rng};
use ldpc_toolbox::decoder::factory::{DecoderFactory, DecoderImplementation};
use ldpc_toolbox::decoder::DecoderOutput;

fn fmt_res(r: &Result<DecoderOutput, DecoderOutput>) -> String {
    match r {
        Ok(o) => format!("Ok(iter={}, word={:?})", o.iterations, o.codeword),
        Err(o) => format!("Err(iter={}, word={:?})", o.iterations, o.codeword),
    }
}

fn kind(r: &Result<DecoderOutput, DecoderOutput>, limit: usize) -> &'static str {
    match r {
        Ok(o) if o.iterations == 0 => "shortcut",
        Ok(_) => "ok",
        Err(_) if limit == 0 => "limit0",
        Err(_) => "fail",
    }
}

pub fn history(l: &mut Local, im: DecoderImplementation, m: &Mat, rng: &mut Rng, len: usize) {
    let name = im.to_string();
    let h = if rng.coin() { m.to_sparse() } else { m.to_sparse_shuffled(rng) };
    let cw = genm::random_codeword(rng, m);
    let mut long = im.build_decoder(h.clone());
    let mut steps: Vec<J> = Vec::new();
    let mut prev_kind = "start";
    let mut iterated_before = false;
    let mut nontrivial = false;
    let mut d = Dig::new();
    d.s(&name).u(m.rows as u64).entries(&m.e);
    for step in 0..len {
        // choose arguments aimed at stale state: after huge magnitudes come tiny ones,
        // after a failure comes a limit-0 call, ...
        let class = match (prev_kind, rng.below(4)) {
            ("fail", 0) => 1,                                // tiny
            ("fail", 1) => 11,                               // near-zero signed
            (_, 2) if step % 3 == 1 => 10,                   // huge-then-tiny
            _ => rng.below(genm::LLR_CLASSES.len()),
        };
        let mut llrs = genm::llr_vector(rng, m.cols, class, Some(&cw));
        // hard-decision style frames (one magnitude, signs of a codeword with one or two flips): exact ties of message
        // magnitudes at every check, which is where an order-dependent rule (A-Min*) shows any state it keeps
        if rng.chance(if name.contains("Aminstarf") { 0.5 } else { 0.08 }) {
            let mag = *rng.pick(&[1.3863, 2.0, 0.5, 4.0]);
            llrs = cw.iter().map(|&b| if b == 1 { -mag } else { mag }).collect();
            for _ in 0..rng.range(1, 2) {
                let i = rng.below(llrs.len());
                llrs[i] = -llrs[i];
            }
        }
        let limit = match (prev_kind, rng.below(5)) {
            ("fail", 0) | ("ok", 0) => 0,
            _ => *rng.pick(&[0usize, 1, 1, 2, 2, 5, 30]),
        };
        d.fs(&llrs).u(limit as u64);
        steps.push(J::obj().set("llrs", jfs(&llrs)).set("limit", limit).set("class", genm::LLR_CLASSES[class]));
        l.eval();
        let got = guard(|| long.decode(&llrs, limit));
        let mut fresh_dec = im.build_decoder(h.clone());
        let want = guard(|| fresh_dec.decode(&llrs, limit));
        let sched = if name.starts_with("HL") { "layered" } else { "flooding" };
        match (&got, &want) {
            (Ok(g), Ok(w)) => {
                let k = kind(g, limit);
                l.count(&format!("transition:{}->{}", prev_kind, k));
                if g != w {
                    l.violation(
                        format!("call on a reused {} decoder differs from a fresh decoder (previous call: {}, this call: limit {} -> fresh {})", sched, prev_kind, if limit == 0 { "0" } else { ">=1" }, kind(w, limit)),
                        m.json()
                            .set("implementation", name.clone())
                            .set("history", J::A(steps.clone()))
                            .set("step", step)
                            .set("reused", fmt_res(g))
                            .set("fresh", fmt_res(w)),
                    );
                    return;
                }
                let non_shortcut = !matches!(g, Ok(o) if o.iterations == 0);
                if (prev_kind == "fail" && non_shortcut) || (limit == 0 && iterated_before && !is_codeword(m.rows, &m.e, &sign_pattern(&llrs))) {
                    nontrivial = true;
                }
                if matches!(k, "ok" | "fail") {
                    iterated_before = true;
                }
                prev_kind = k;
            }
            (Err(p), Ok(_)) => {
                l.violation(
                    format!("reused decoder panicked where a fresh one does not: {}", panic_class(p)),
                    m.json().set("implementation", name.clone()).set("history", J::A(steps.clone())).set("panic", p.clone()),
                );
                return;
            }
            (_, Err(p)) => {
                // a panic on a fresh decoder is a C01 matter; record it here too since the call is in-domain
                l.violation(
                    format!("decode panicked on a fresh decoder: {}", panic_class(p)),
                    m.json().set("implementation", name.clone()).set("history", J::A(steps.clone())).set("panic", p.clone()),
                );
                return;
            }
        }
    }
    if nontrivial {
        l.nt(d.get());
    }
    l.sample(|| m.json().set("implementation", name.clone()).set("history", J::A(steps.iter().take(4).cloned().collect())).set("steps", steps.len()));
}

pub fn run(run: &mut Run) {
    run.rule = "all 36 names x call histories of length 2..20 on one long-lived decoder built by build_decoder; every call is repeated on a decoder freshly built on the same H and the two results must be equal; arguments are steered by the previous outcome (failure -> tiny / limit 0, huge -> tiny magnitudes), hard-decision style frames with exact magnitude ties (half of the frames for the float A-Min* names), one matrix in eight with zero-weight columns, limits from {0,1,2,5,30}, matrices include very unequal row weights (scratch vectors) and shuffled insertion order; non-trivial = history with a failure followed by a non-shortcut call, or a limit-0 call on a non-codeword after >= 1 executed iteration; distinct by history digest".into();
    let impls = crate::props::c01::all_impls();
    let ni = impls.len() as u64;
    let per = if cfg!(miri) { 1 } else { run.tier.n(8000, 250_000) };
    run.sub("histories", ni * per, move |l, idx, rng| {
        let im = impls[(idx % ni) as usize];
        let m = if idx % 5 == 0 {
            // very unequal row weights, heavy rows at random positions
            let rows = rng.range(2, 6);
            let cols = rng.range(8, 16);
            let mut e = Vec::new();
            for r in 0..rows {
                let w = if rng.chance(0.35) { rng.range(5, cols.min(10)) } else { 2 };
                for c in rng.choose(cols, w) {
                    e.push((r, c));
                }
            }
            Mat::new(rows, cols, e, "unequal-row-weights-random")
        } else {
            genm::decoder_matrix(rng, 6, 14)
        };
        // one matrix in eight has bits that take part in no check
        let m = if idx % 8 == 5 { genm::add_isolated_columns(&m, rng) } else { m };
        let len = if cfg!(miri) { 3 } else { rng.range(2, 20) };
        history(l, im, &m, rng, len);
    });
    let impls = crate::props::c01::all_impls();
    run.sub_seq("directed", 1, move |l, _i, rng| {
        // the repaired defect's witness as a scripted history, for every implementation
        let m = Mat::new(2, 3, vec![(0, 0), (0, 1), (1, 1), (1, 2)], "directed-2x3");
        for &im in &impls {
            let h = m.to_sparse();
            let mut long = im.build_decoder(h.clone());
            let calls: [(&[f64], usize); 4] = [(&[-1.0, 5.0, 5.0], 3), (&[-1.0, 5.0, 5.0], 0), (&[1.0, -5.0, 5.0], 1), (&[-1.0, 5.0, 5.0], 0)];
            for (k, (llrs, limit)) in calls.iter().enumerate() {
                l.eval();
                let g = long.decode(llrs, *limit);
                let w = im.build_decoder(h.clone()).decode(llrs, *limit);
                if g != w {
                    l.violation(
                        format!("call on a reused {} decoder differs from a fresh decoder (directed witness, call {})", if im.to_string().starts_with("HL") { "layered" } else { "flooding" }, k),
                        m.json().set("implementation", im.to_string()).set("reused", fmt_res(&g)).set("fresh", fmt_res(&w)),
                    );
                    break;
                }
            }
        }
        let _ = rng;
    });
}
