use lv::ctx::{ReplayReq, Run, Tier, install_panic_hook};
use lv::json;

fn usage() -> ! {
    eprintln!("usage: lv <ID> [--tier quick|thorough] [--seed N] [--replay FILE] [--leg NAME] [--legs name=log,...] [--only SUB]");
    std::process::exit(2)
}

fn main() {
    let args: Vec<String> = std::env::args().skip(1).collect();
    if args.is_empty() {
        usage();
    }
    let prop = args[0].clone();
    let mut tier = match std::env::var("VERIF_TIER").as_deref() {
        Ok("thorough") => Tier::Thorough,
        _ => Tier::Quick,
    };
    let mut seed: u64 = std::env::var("VERIF_SEED").ok().and_then(|s| s.parse().ok()).unwrap_or(1);
    let mut replay: Option<String> = None;
    let mut leg: Option<String> = None;
    let mut legs: Vec<(String, String)> = Vec::new();
    let mut extra: Vec<String> = Vec::new();
    let mut i = 1;
    while i < args.len() {
        match args[i].as_str() {
            "--tier" => {
                i += 1;
                tier = match args.get(i).map(|s| s.as_str()) {
                    Some("quick") => Tier::Quick,
                    Some("thorough") => Tier::Thorough,
                    _ => usage(),
                };
            }
            "--seed" => {
                i += 1;
                seed = args.get(i).and_then(|s| s.parse().ok()).unwrap_or_else(|| usage());
            }
            "--replay" => {
                i += 1;
                replay = Some(args.get(i).cloned().unwrap_or_else(|| usage()));
            }
            "--leg" => {
                i += 1;
                leg = Some(args.get(i).cloned().unwrap_or_else(|| usage()));
            }
            "--legs" => {
                i += 1;
                for kv in args.get(i).cloned().unwrap_or_default().split(',') {
                    if let Some((k, v)) = kv.split_once('=') {
                        legs.push((k.to_string(), v.to_string()));
                    }
                }
            }
            other => extra.push(other.to_string()),
        }
        i += 1;
    }
    install_panic_hook();
    let mut run = Run::new(&prop, tier, seed);
    run.leg = leg;
    if let Some(path) = &replay {
        let text = std::fs::read_to_string(path).unwrap_or_else(|e| {
            eprintln!("ERROR cannot read replay file {}: {}", path, e);
            std::process::exit(2)
        });
        let j = json::parse(&text).unwrap_or_else(|e| {
            eprintln!("ERROR cannot parse replay file {}: {}", path, e);
            std::process::exit(2)
        });
        let sub = j.get("sub").and_then(|s| s.as_str()).unwrap_or("").to_string();
        let idx = j.get("index").and_then(|s| s.as_u64()).unwrap_or(0);
        if let Some(s) = j.get("seed").and_then(|s| s.as_u64()) {
            run.seed = s;
        }
        if let Some(t) = j.get("tier").and_then(|s| s.as_str()) {
            run.tier = if t == "thorough" { Tier::Thorough } else { Tier::Quick };
        }
        run.replay = Some(ReplayReq { sub, idx });
    }
    if !lv::props::dispatch(&mut run, &extra) {
        eprintln!("ERROR unknown property {}", prop);
        std::process::exit(2);
    }
    for (name, log) in &legs {
        run.integrate_leg(name, log);
    }
    let code = run.finish();
    std::process::exit(code);
}
